module github.com/oasisprotocol/ed25519/verifh

go 1.23

require github.com/oasisprotocol/ed25519 v0.0.0

require golang.org/x/crypto v0.0.0-20191119213627-4f8c1d86b1ba // indirect

replace github.com/oasisprotocol/ed25519 => /repo
