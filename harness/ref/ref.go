// Package ref is an independent big-integer model of Ed25519 (RFC 8032) with
// the oasis/ZIP-215 verification predicates.
package ref

import (
	"crypto/sha512"
	"math/big"
)

var (
	P, _   = new(big.Int).SetString("57896044618658097711785492504343953926634992332820282019728792003956564819949", 10)
	L, _   = new(big.Int).SetString("7237005577332262213973186563042994240857116359379907606001950938285454250989", 10)
	D      *big.Int
	SqrtM1 *big.Int
	B      Point
	T8     Point // a point of order exactly 8
	one    = big.NewInt(1)
	two    = big.NewInt(2)
)

type Point struct{ X, Y *big.Int }

func mod(x *big.Int) *big.Int { return x.Mod(x, P) }
func inv(x *big.Int) *big.Int { return new(big.Int).ModInverse(x, P) }

func init() {
	// d = -121665/121666
	D = mod(new(big.Int).Mul(big.NewInt(-121665), inv(big.NewInt(121666))))
	// sqrt(-1) = 2^((p-1)/4)
	e := new(big.Int).Rsh(new(big.Int).Sub(P, one), 2)
	SqrtM1 = new(big.Int).Exp(two, e, P)
	// B: y = 4/5, x positive(even)
	y := mod(new(big.Int).Mul(big.NewInt(4), inv(big.NewInt(5))))
	x, ok := recoverX(y, 0)
	if !ok {
		panic("no base point")
	}
	B = Point{x, y}
	// torsion generator: search small y with a point whose [L]Q has order 8
	for i := int64(2); ; i++ {
		yy := big.NewInt(i)
		xx, ok := recoverX(yy, 0)
		if !ok {
			continue
		}
		q := ScalarMult(L, Point{xx, yy})
		if !IsIdentity(ScalarMult(big.NewInt(4), q)) {
			T8 = q
			break
		}
	}
	initTors()
}

func Identity() Point { return Point{big.NewInt(0), big.NewInt(1)} }

func IsIdentity(p Point) bool { return p.X.Sign() == 0 && p.Y.Cmp(one) == 0 }

func Eq(a, b Point) bool { return a.X.Cmp(b.X) == 0 && a.Y.Cmp(b.Y) == 0 }

func Neg(a Point) Point {
	return Point{mod(new(big.Int).Neg(a.X)), new(big.Int).Set(a.Y)}
}

// Add is the complete addition law on -x^2+y^2 = 1+d x^2 y^2.
func Add(a, b Point) Point {
	x1y2 := new(big.Int).Mul(a.X, b.Y)
	y1x2 := new(big.Int).Mul(a.Y, b.X)
	y1y2 := new(big.Int).Mul(a.Y, b.Y)
	x1x2 := new(big.Int).Mul(a.X, b.X)
	dxy := mod(new(big.Int).Mul(D, mod(new(big.Int).Mul(x1x2, y1y2))))
	xn := mod(new(big.Int).Add(x1y2, y1x2))
	yn := mod(new(big.Int).Add(y1y2, x1x2))
	xd := inv(mod(new(big.Int).Add(one, dxy)))
	yd := inv(mod(new(big.Int).Sub(one, dxy)))
	return Point{mod(xn.Mul(xn, xd)), mod(yn.Mul(yn, yd))}
}

func ScalarMult(k *big.Int, p Point) Point {
	if k.Sign() < 0 {
		panic("negative scalar")
	}
	// projective (extended) double-and-add to avoid inversions
	return fromExt(extScalarMult(k, toExt(p)))
}

type ext struct{ X, Y, Z, T *big.Int }

func toExt(p Point) ext {
	return ext{new(big.Int).Set(p.X), new(big.Int).Set(p.Y), big.NewInt(1), mod(new(big.Int).Mul(p.X, p.Y))}
}
func fromExt(e ext) Point {
	zi := inv(e.Z)
	return Point{mod(new(big.Int).Mul(e.X, zi)), mod(new(big.Int).Mul(e.Y, zi))}
}
func extAdd(p, q ext) ext {
	// add-2008-hwcd-3 (complete for a=-1, d non-square)
	a := mod(new(big.Int).Mul(new(big.Int).Sub(p.Y, p.X), new(big.Int).Sub(q.Y, q.X)))
	b := mod(new(big.Int).Mul(new(big.Int).Add(p.Y, p.X), new(big.Int).Add(q.Y, q.X)))
	c := mod(new(big.Int).Mul(mod(new(big.Int).Mul(p.T, q.T)), new(big.Int).Lsh(D, 1)))
	d := mod(new(big.Int).Lsh(new(big.Int).Mul(p.Z, q.Z), 1))
	e := new(big.Int).Sub(b, a)
	f := new(big.Int).Sub(d, c)
	g := new(big.Int).Add(d, c)
	h := new(big.Int).Add(b, a)
	return ext{mod(new(big.Int).Mul(e, f)), mod(new(big.Int).Mul(g, h)), mod(new(big.Int).Mul(f, g)), mod(new(big.Int).Mul(e, h))}
}
func extScalarMult(k *big.Int, p ext) ext {
	r := toExt(Identity())
	for i := k.BitLen() - 1; i >= 0; i-- {
		r = extAdd(r, r)
		if k.Bit(i) == 1 {
			r = extAdd(r, p)
		}
	}
	return r
}

// recoverX returns x with x^2 = (y^2-1)/(d y^2+1) and parity sign, if it exists.
func recoverX(y *big.Int, sign uint) (*big.Int, bool) {
	y2 := mod(new(big.Int).Mul(y, y))
	u := mod(new(big.Int).Sub(y2, one))
	v := mod(new(big.Int).Add(mod(new(big.Int).Mul(D, y2)), one))
	x2 := mod(new(big.Int).Mul(u, inv(v)))
	if x2.Sign() == 0 {
		return big.NewInt(0), true
	}
	x := new(big.Int).ModSqrt(x2, P)
	if x == nil {
		return nil, false
	}
	if x.Bit(0) != sign {
		x = new(big.Int).Sub(P, x)
	}
	return x, true
}

func leInt(b []byte) *big.Int {
	r := make([]byte, len(b))
	for i := range b {
		r[len(b)-1-i] = b[i]
	}
	return new(big.Int).SetBytes(r)
}

func LEBytes(x *big.Int, n int) []byte {
	be := x.Bytes()
	out := make([]byte, n)
	for i := range be {
		if i < n {
			out[i] = be[len(be)-1-i]
		}
	}
	return out
}

// Decode is the lenient decoding: y taken mod p, sign bit ignored when x == 0.
func Decode(b []byte) (Point, bool) {
	if len(b) != 32 {
		return Point{}, false
	}
	c := append([]byte(nil), b...)
	sign := uint(c[31] >> 7)
	c[31] &= 0x7f
	y := leInt(c)
	y.Mod(y, P)
	x, ok := recoverX(y, sign)
	if !ok {
		return Point{}, false
	}
	return Point{x, y}, true
}

// Encode is the canonical encoding.
func Encode(p Point) []byte {
	out := LEBytes(p.Y, 32)
	out[31] |= byte(p.X.Bit(0)) << 7
	return out
}

func IsSmallOrder(p Point) bool { return IsIdentity(ScalarMult(big.NewInt(8), p)) }

type Variant struct {
	Pure bool
	Ph   bool
	Ctx  []byte
}

func dom2(v Variant) []byte {
	if v.Pure {
		return nil
	}
	f := byte(0)
	if v.Ph {
		f = 1
	}
	out := []byte("SigEd25519 no Ed25519 collisions")
	out = append(out, f, byte(len(v.Ctx)))
	return append(out, v.Ctx...)
}

func HashModL(parts ...[]byte) *big.Int {
	h := sha512.New()
	for _, p := range parts {
		h.Write(p)
	}
	x := leInt(h.Sum(nil))
	return x.Mod(x, L)
}

// Verify is the documented predicate. zip215 disables the small-order exclusions.
func Verify(pub, msg, sig []byte, v Variant, zip215 bool) bool {
	if len(sig) != 64 || len(pub) != 32 {
		return false
	}
	S := leInt(sig[32:])
	if S.Cmp(L) >= 0 {
		return false
	}
	A, ok := Decode(pub)
	if !ok {
		return false
	}
	R, ok := Decode(sig[:32])
	if !ok {
		return false
	}
	if !zip215 && (IsSmallOrder(A) || IsSmallOrder(R)) {
		return false
	}
	h := HashModL(dom2(v), sig[:32], pub, msg)
	// [8]([S]B - [h]A - R)
	t := Add(ScalarMult(S, B), Neg(Add(ScalarMult(h, A), R)))
	return IsIdentity(ScalarMult(big.NewInt(8), t))
}

// Sign is RFC 8032 5.1.6 with dom2.
func Sign(seed, msg []byte, v Variant) (pub, sig []byte) {
	hh := sha512.Sum512(seed)
	hh[0] &= 248
	hh[31] &= 127
	hh[31] |= 64
	a := leInt(hh[:32])
	A := Encode(ScalarMult(a, B))
	r := HashModL(dom2(v), hh[32:], msg)
	R := Encode(ScalarMult(r, B))
	h := HashModL(dom2(v), R, A, msg)
	S := new(big.Int).Mul(h, a)
	S.Add(S, r).Mod(S, L)
	return A, append(R, LEBytes(S, 32)...)
}
