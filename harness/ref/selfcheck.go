package ref

import (
	"bytes"
	"encoding/hex"
	"math/big"
)

func unhex(s string) []byte {
	b, err := hex.DecodeString(s)
	if err != nil {
		panic(err)
	}
	return b
}

// speccheck vectors ("Taming the many EdDSAs", cases.json) with the
// published expectations for a cofactored verifier with and without the
// small-order exclusions; embedded so the oracle is validated independently
// of the repository's test data.
var speccheck = [][3]string{
	{"8c93255d71dcab10e8f379c26200f3c7bd5f09d9bc3068d3ef4edeb4853022b6", "c7176a703d4dd84fba3c0b760d10670f2a2053fa2c39ccc64ec7fd7792ac03fa", "c7176a703d4dd84fba3c0b760d10670f2a2053fa2c39ccc64ec7fd7792ac037a0000000000000000000000000000000000000000000000000000000000000000"},
	{"9bd9f44f4dcc75bd531b56b2cd280b0bb38fc1cd6d1230e14861d861de092e79", "c7176a703d4dd84fba3c0b760d10670f2a2053fa2c39ccc64ec7fd7792ac03fa", "f7badec5b8abeaf699583992219b7b223f1df3fbbea919844e3f7c554a43dd43a5bb704786be79fc476f91d3f3f89b03984d8068dcf1bb7dfc6637b45450ac04"},
	{"aebf3f2601a0c8c5d39cc7d8911642f740b78168218da8471772b35f9d35b9ab", "f7badec5b8abeaf699583992219b7b223f1df3fbbea919844e3f7c554a43dd43", "c7176a703d4dd84fba3c0b760d10670f2a2053fa2c39ccc64ec7fd7792ac03fa8c4bd45aecaca5b24fb97bc10ac27ac8751a7dfe1baff8b953ec9f5833ca260e"},
	{"9bd9f44f4dcc75bd531b56b2cd280b0bb38fc1cd6d1230e14861d861de092e79", "cdb267ce40c5cd45306fa5d2f29731459387dbf9eb933b7bd5aed9a765b88d4d", "9046a64750444938de19f227bb80485e92b83fdb4b6506c160484c016cc1852f87909e14428a7a1d62e9f22f3d3ad7802db02eb2e688b6c52fcd6648a98bd009"},
	{"e47d62c63f830dc7a6851a0b1f33ae4bb2f507fb6cffec4011eaccd55b53f56c", "cdb267ce40c5cd45306fa5d2f29731459387dbf9eb933b7bd5aed9a765b88d4d", "160a1cb0dc9c0258cd0a7d23e94d8fa878bcb1925f2c64246b2dee1796bed5125ec6bc982a269b723e0668e540911a9a6a58921d6925e434ab10aa7940551a09"},
	{"e47d62c63f830dc7a6851a0b1f33ae4bb2f507fb6cffec4011eaccd55b53f56c", "cdb267ce40c5cd45306fa5d2f29731459387dbf9eb933b7bd5aed9a765b88d4d", "21122a84e0b5fca4052f5b1235c80a537878b38f3142356b2c2384ebad4668b7e40bc836dac0f71076f9abe3a53f9c03c1ceeeddb658d0030494ace586687405"},
	{"85e241a07d148b41e47d62c63f830dc7a6851a0b1f33ae4bb2f507fb6cffec40", "442aad9f089ad9e14647b1ef9099a1ff4798d78589e66f28eca69c11f582a623", "e96f66be976d82e60150baecff9906684aebb1ef181f67a7189ac78ea23b6c0e547f7690a0e2ddcd04d87dbc3490dc19b3b3052f7ff0538cb68afb369ba3a514"},
	{"85e241a07d148b41e47d62c63f830dc7a6851a0b1f33ae4bb2f507fb6cffec40", "442aad9f089ad9e14647b1ef9099a1ff4798d78589e66f28eca69c11f582a623", "8ce5b96c8f26d0ab6c47958c9e68b937104cd36e13c33566acd2fe8d38aa19427e71f98a473474f2f13f06f97c20d58cc3f54b8bd0d272f42b695dd7e89a8c22"},
	{"9bedc267423725d473888631ebf45988bad3db83851ee85c85e241a07d148b41", "f7badec5b8abeaf699583992219b7b223f1df3fbbea919844e3f7c554a43dd43", "ecffffffffffffffffffffffffffffffffffffffffffffffffffffffffffffff03be9678ac102edcd92b0210bb34d7428d12ffc5df5f37e359941266a4e35f0f"},
	{"9bedc267423725d473888631ebf45988bad3db83851ee85c85e241a07d148b41", "f7badec5b8abeaf699583992219b7b223f1df3fbbea919844e3f7c554a43dd43", "ecffffffffffffffffffffffffffffffffffffffffffffffffffffffffffffffca8c5b64cd208982aa38d4936621a4775aa233aa0505711d8fdcfdaa943d4908"},
	{"e96b7021eb39c1a163b6da4e3093dcd3f21387da4cc4572be588fafae23c155b", "ecffffffffffffffffffffffffffffffffffffffffffffffffffffffffffffff", "a9d55260f765261eb9b84e106f665e00b867287a761990d7135963ee0a7d59dca5bb704786be79fc476f91d3f3f89b03984d8068dcf1bb7dfc6637b45450ac04"},
	{"39a591f5321bbe07fd5a23dc2f39d025d74526615746727ceefd6e82ae65c06f", "ecffffffffffffffffffffffffffffffffffffffffffffffffffffffffffffff", "a9d55260f765261eb9b84e106f665e00b867287a761990d7135963ee0a7d59dca5bb704786be79fc476f91d3f3f89b03984d8068dcf1bb7dfc6637b45450ac04"},
}

// expectation of the documented default predicate (cofactored, small order
// key / R refused) and of the ZIP-215 rule set.
var speccheckDefault = []bool{false, false, false, true, true, true, false, false, false, false, false, false}
var speccheckZIP215 = []bool{true, true, true, true, true, true, false, false, false, true, true, true}

// SelfCheck validates the model against published vectors: RFC 8032 7.1
// (pure), 7.2 (ctx), 7.3 (ph), RFC 7748 5.2 and 6.1, the 12 speccheck
// cases in both modes, and structural facts (torsion orders, 14 encodings).
// It returns a list of failures (empty = ok).
func SelfCheck() []string {
	var bad []string
	fail := func(s string) { bad = append(bad, s) }

	// RFC 8032 7.1 TEST 1, 2, 3
	type v1 struct{ seed, pub, msg, sig string }
	for i, v := range []v1{
		{"9d61b19deffd5a60ba844af492ec2cc44449c5697b326919703bac031cae7f60", "d75a980182b10ab7d54bfed3c964073a0ee172f3daa62325af021a68f707511a", "",
			"e5564300c360ac729086e2cc806e828a84877f1eb8e5d974d873e065224901555fb8821590a33bacc61e39701cf9b46bd25bf5f0595bbe24655141438e7a100b"},
		{"4ccd089b28ff96da9db6c346ec114e0f5b8a319f35aba624da8cf6ed4fb8a6fb", "3d4017c3e843895a92b70aa74d1b7ebc9c982ccf2ec4968cc0cd55f12af4660c", "72",
			"92a009a9f0d4cab8720e820b5f642540a2b27b5416503f8fb3762223ebdb69da085ac1e43e15996e458f3613d0f11d8c387b2eaeb4302aeeb00d291612bb0c00"},
		{"c5aa8df43f9f837bedb7442f31dcb7b166d38535076f094b85ce3a2e0b4458f7", "fc51cd8e6218a1a38da47ed00230f0580816ed13ba3303ac5deb911548908025", "af82",
			"6291d657deec24024827e69c3abe01a30ce548a284743a445e3680d7db5ac3ac18ff9b538d16f290ae67f760984dc6594a7c15e9716ed28dc027beceea1ec40a"},
	} {
		pub, sig := Sign(unhex(v.seed), unhex(v.msg), Variant{Pure: true})
		if !bytes.Equal(pub, unhex(v.pub)) || !bytes.Equal(sig, unhex(v.sig)) {
			fail("rfc8032-7.1 sign " + string(rune('1'+i)))
		}
		if !Verify(pub, unhex(v.msg), sig, Variant{Pure: true}, false) || !Verify(pub, unhex(v.msg), sig, Variant{Pure: true}, true) {
			fail("rfc8032-7.1 verify")
		}
	}
	// RFC 8032 7.2 (ctx "foo") and 7.3 (ph "abc")
	{
		seed := unhex("0305334e381af78f141cb666f6199f57bc3495335a256a95bd2a55bf546663f6")
		pub, sig := Sign(seed, unhex("f726936d19c800494e3fdaff20b276a8"), Variant{Ctx: []byte("foo")})
		if hex.EncodeToString(pub) != "dfc9425e4f968f7f0c29f0259cf5f9aed6851c2bb4ad8bfb860cfee0ab248292" ||
			hex.EncodeToString(sig) != "55a4cc2f70a54e04288c5f4cd1e45a7bb520b36292911876cada7323198dd87a8b36950b95130022907a7fb7c4e9b2d5f6cca685a587b4b21f4b888e4e7edb0d" {
			fail("rfc8032-7.2 ctx")
		}
		seed = unhex("833fe62409237b9d62ec77587520911e9a759cec1d19755b7da901b96dca3d42")
		// SHA-512("abc")
		dig := unhex("ddaf35a193617abacc417349ae20413112e6fa4e89a97ea20a9eeee64b55d39a2192992a274fc1a836ba3c23a3feebbd454d4423643ce80e2a9ac94fa54ca49f")
		pub, sig = Sign(seed, dig, Variant{Ph: true})
		if hex.EncodeToString(pub) != "ec172b93ad5e563bf4932c70e1245034c35467ef2efd4d64ebf819683467e2bf" ||
			hex.EncodeToString(sig) != "98a70222f0b8121aa9d30f813d683f809e462b469c7ff87639499bb94e6dae4131f85042463c2a355a2003d062adf5aaa10b8c61e636062aaad11c2a26083406" {
			fail("rfc8032-7.3 ph")
		}
	}
	// RFC 7748 5.2 and 6.1
	{
		out := X25519(unhex("a546e36bf0527c9d3b16154b82465edd62144c0ac1fc5a18506a2244ba449ac4"), unhex("e6db6867583030db3594c1a424b15f7c726624ec26b3353b10a903a6d0ab1c4c"))
		if hex.EncodeToString(out) != "c3da55379de9c6908e94ea4df28d084f32eccf03491c71f754b4075577a28552" {
			fail("rfc7748-5.2 #1")
		}
		out = X25519(unhex("4b66e9d4d1b4673c5ad22691957d6af5c11b6421e0ea01d42ca4169e7918ba0d"), unhex("e5210f12786811d3f4b7959d0538ae2c31dbe7106fc03c3efc4cd549c715a493"))
		if hex.EncodeToString(out) != "95cbde9476e8907d7aade45cb4b873f88b595a68799fa152e6f8f7647aac7957" {
			fail("rfc7748-5.2 #2")
		}
		nine := make([]byte, 32)
		nine[0] = 9
		out = X25519(unhex("77076d0a7318a57d3c16c17251b26645df4c2f87ebc0992ab177fba51db92c2a"), nine)
		if hex.EncodeToString(out) != "8520f0098930a754748b7ddcb43ef75a0dbf3a0d26381af4eba4a98eaa9b4e6a" {
			fail("rfc7748-6.1")
		}
		// base point correspondence: u(B) = 9
		if hex.EncodeToString(EdYToMontU(B.Y)) != hex.EncodeToString(nine) {
			fail("birational map of B")
		}
	}
	for i, v := range speccheck {
		m, k, s := unhex(v[0]), unhex(v[1]), unhex(v[2])
		if Verify(k, m, s, Variant{Pure: true}, false) != speccheckDefault[i] {
			fail("speccheck default " + string(rune('a'+i)))
		}
		if Verify(k, m, s, Variant{Pure: true}, true) != speccheckZIP215[i] {
			fail("speccheck zip215 " + string(rune('a'+i)))
		}
	}
	// structure
	if len(SmallOrderEncodings()) != 14 {
		fail("14 small-order encodings")
	}
	for i := 0; i < 8; i++ {
		o := TorsOrder(i)
		if !IsIdentity(ScalarMult(bigInt(o), Tors[i])) || (o > 1 && IsIdentity(ScalarMult(bigInt(o/2), Tors[i]))) {
			fail("torsion order")
		}
	}
	if !IsIdentity(ScalarMult(L, B)) {
		fail("[L]B")
	}
	return bad
}

func bigInt(i int) *big.Int { return big.NewInt(int64(i)) }
