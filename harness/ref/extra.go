package ref

import (
	"crypto/sha512"
	"math/big"
)

// Tors[i] = [i]T8, the eight points whose order divides 8.
var Tors [8]Point

// A24 is (486662-2)/4 for the Montgomery ladder.
var a24 = big.NewInt(121665)

func initTors() {
	for i := 0; i < 8; i++ {
		Tors[i] = ScalarMult(big.NewInt(int64(i)), T8)
	}
}

// Order returns the order (1,2,4,8) of torsion point index i.
func TorsOrder(i int) int {
	i &= 7
	switch {
	case i == 0:
		return 1
	case i == 4:
		return 2
	case i%2 == 0:
		return 4
	}
	return 8
}

// Encodings returns every 32-byte string that the lenient decoding maps to
// p: the canonical one first, then the sign-bit twin when x == 0 and the
// y+p twins when y < 19.
func Encodings(p Point) [][]byte {
	var out [][]byte
	ys := []*big.Int{new(big.Int).Set(p.Y)}
	if yp := new(big.Int).Add(p.Y, P); yp.BitLen() <= 255 {
		ys = append(ys, yp)
	}
	for _, y := range ys {
		e := LEBytes(y, 32)
		e[31] |= byte(p.X.Bit(0)) << 7
		out = append(out, e)
		if p.X.Sign() == 0 {
			e2 := append([]byte(nil), e...)
			e2[31] ^= 0x80
			out = append(out, e2)
		}
	}
	return out
}

// SmallOrderEncodings returns all encodings of the eight torsion points
// (14 strings), derived from the model, not copied from the library.
func SmallOrderEncodings() [][]byte {
	var out [][]byte
	for i := 0; i < 8; i++ {
		out = append(out, Encodings(Tors[i])...)
	}
	return out
}

// Reason codes of VerifyDetail.
const (
	RAccept = iota
	RLen
	RSRange
	RKeyUndecodable
	RRUndecodable
	RKeySmall
	RRSmall
	REquation
)

var ReasonNames = []string{"accept", "length", "S>=L", "key-undecodable", "R-undecodable", "key-small-order", "R-small-order", "equation"}

// VerifyDetail is Verify with the reason for rejection (first failing
// clause in a fixed order; the verdict itself does not depend on the order).
func VerifyDetail(pub, msg, sig []byte, v Variant, zip215 bool) int {
	if len(sig) != 64 || len(pub) != 32 {
		return RLen
	}
	S := LEInt(sig[32:])
	if S.Cmp(L) >= 0 {
		return RSRange
	}
	A, ok := Decode(pub)
	if !ok {
		return RKeyUndecodable
	}
	R, ok := Decode(sig[:32])
	if !ok {
		return RRUndecodable
	}
	if !zip215 && IsSmallOrder(A) {
		return RKeySmall
	}
	if !zip215 && IsSmallOrder(R) {
		return RRSmall
	}
	h := HashModL(Dom2(v), sig[:32], pub, msg)
	t := Add(ScalarMult(S, B), Neg(Add(ScalarMult(h, A), R)))
	if !IsIdentity(ScalarMult(big.NewInt(8), t)) {
		return REquation
	}
	return RAccept
}

func LEInt(b []byte) *big.Int { return leInt(b) }

func Dom2(v Variant) []byte { return dom2(v) }

// ExpandSeed returns the clamped secret scalar and the nonce prefix.
func ExpandSeed(seed []byte) (*big.Int, []byte) {
	hh := sha512.Sum512(seed)
	hh[0] &= 248
	hh[31] &= 127
	hh[31] |= 64
	return leInt(hh[:32]), append([]byte(nil), hh[32:]...)
}

// ClampedScalarBytes returns the clamped first half of SHA-512(seed).
func ClampedScalarBytes(seed []byte) []byte {
	hh := sha512.Sum512(seed)
	hh[0] &= 248
	hh[31] &= 127
	hh[31] |= 64
	return append([]byte(nil), hh[:32]...)
}

// SignWith makes a signature satisfying the cofactored equation for an
// arbitrary key A = [a]B + Ta sent as aenc and R = [r]B + Tr sent as renc:
// S = r + h*a mod L with h computed over the bytes as sent.
func SignWith(a, r *big.Int, aenc, renc, msg []byte, v Variant) []byte {
	h := HashModL(dom2(v), renc, aenc, msg)
	S := new(big.Int).Mul(h, a)
	S.Add(S, r).Mod(S, L)
	return append(append([]byte(nil), renc...), LEBytes(S, 32)...)
}

// ---- RFC 7748 ----

func fmul(a, b *big.Int) *big.Int { return mod(new(big.Int).Mul(a, b)) }
func fadd(a, b *big.Int) *big.Int { return mod(new(big.Int).Add(a, b)) }
func fsub(a, b *big.Int) *big.Int { return mod(new(big.Int).Sub(a, b)) }

// X25519 is the RFC 7748 function (scalar clamped, u masked and reduced).
func X25519(scalar, u []byte) []byte {
	k := append([]byte(nil), scalar...)
	k[0] &= 248
	k[31] &= 127
	k[31] |= 64
	kk := leInt(k)
	uu := append([]byte(nil), u...)
	uu[31] &= 127
	x1 := mod(leInt(uu))
	x2, z2 := big.NewInt(1), big.NewInt(0)
	x3, z3 := new(big.Int).Set(x1), big.NewInt(1)
	swap := uint(0)
	for t := 254; t >= 0; t-- {
		kt := kk.Bit(t)
		swap ^= kt
		if swap == 1 {
			x2, x3 = x3, x2
			z2, z3 = z3, z2
		}
		swap = kt
		A := fadd(x2, z2)
		AA := fmul(A, A)
		Bv := fsub(x2, z2)
		BB := fmul(Bv, Bv)
		E := fsub(AA, BB)
		C := fadd(x3, z3)
		Dv := fsub(x3, z3)
		DA := fmul(Dv, A)
		CB := fmul(C, Bv)
		t1 := fadd(DA, CB)
		x3 = fmul(t1, t1)
		t2 := fsub(DA, CB)
		z3 = fmul(x1, fmul(t2, t2))
		x2 = fmul(AA, BB)
		z2 = fmul(E, fadd(AA, fmul(a24, E)))
	}
	if swap == 1 {
		x2, x3 = x3, x2
		z2, z3 = z3, z2
	}
	var zi *big.Int
	if z2.Sign() == 0 {
		zi = big.NewInt(0)
	} else {
		zi = inv(z2)
	}
	return LEBytes(fmul(x2, zi), 32)
}

// EdYToMontU returns the canonical encoding of (1+y)/(1-y), 0 when y == 1.
func EdYToMontU(y *big.Int) []byte {
	den := fsub(one, y)
	if den.Sign() == 0 {
		return make([]byte, 32)
	}
	return LEBytes(fmul(fadd(one, y), inv(den)), 32)
}

// ModL helpers
func ModL(x *big.Int) *big.Int { return new(big.Int).Mod(x, L) }
