//go:build verifcov

// ctcount: block-count monitor for property C20 (the wide, shallow companion
// of the lackey trace comparison).
//
// The library is compiled from sources rewritten by `go tool cover
// -mode=count` (injected with -overlay; every rewritten file registers its
// counter array in its package's VerifCovTable).  For one operation and fixed
// public inputs the vector "how often was each basic block of the library
// executed" must be the same for every secret: a branch, an early exit, a
// loop bound or a memo steered by secret bytes changes the vector.  Many
// thousands of secrets per operation are cheap here, so branches that only
// one secret in 10^3..10^4 takes are reached; addresses, assembly bodies and
// compiler-introduced branches are not visible (the instruction traces cover
// those on few secrets).
//
// Every measured call is preceded by an unmeasured call of the same operation
// with the reference secret, so that a measured call with the reference secret
// repeats the previous secret while every other measured call does not: a
// cache keyed by secret material shows as a difference.
package main

import (
	"bufio"
	"bytes"
	"crypto"
	"crypto/sha512"
	"encoding/hex"
	"flag"
	"fmt"
	"math/rand"
	"os"
	"runtime"
	"runtime/debug"
	"sort"
	"strings"

	"github.com/oasisprotocol/ed25519"
	"github.com/oasisprotocol/ed25519/extra/x25519"
	"github.com/oasisprotocol/ed25519/internal/curve25519"
	"github.com/oasisprotocol/ed25519/internal/ge25519"
	"github.com/oasisprotocol/ed25519/internal/modm"
	"github.com/oasisprotocol/ed25519/verifh/ev"
)

type entry struct {
	file  string
	count []uint32
	pos   []uint32
}

var table []entry

func collect() {
	for _, e := range ed25519.VerifCovTable {
		table = append(table, entry{e.File, e.Count, e.Pos})
	}
	for _, e := range x25519.VerifCovTable {
		table = append(table, entry{e.File, e.Count, e.Pos})
	}
	for _, e := range curve25519.VerifCovTable {
		table = append(table, entry{e.File, e.Count, e.Pos})
	}
	for _, e := range ge25519.VerifCovTable {
		table = append(table, entry{e.File, e.Count, e.Pos})
	}
	for _, e := range modm.VerifCovTable {
		table = append(table, entry{e.File, e.Count, e.Pos})
	}
	sort.Slice(table, func(i, j int) bool { return table[i].file < table[j].file })
}

func reset() {
	for _, e := range table {
		for i := range e.count {
			e.count[i] = 0
		}
	}
}

func snapshot(dst []uint32) []uint32 {
	dst = dst[:0]
	for _, e := range table {
		dst = append(dst, e.count...)
	}
	return dst
}

func equalVec(a, b []uint32) bool {
	if len(a) != len(b) {
		return false
	}
	for i := range a {
		if a[i] != b[i] {
			return false
		}
	}
	return true
}

// diff lists the blocks whose counts differ (file:startline.col-endline.col ref->this).
func diff(ref, cur []uint32) []string {
	var out []string
	k := 0
	for _, e := range table {
		for i := range e.count {
			if ref[k] != cur[k] && len(out) < 6 {
				p := e.pos[3*i : 3*i+3]
				out = append(out, fmt.Sprintf("%s:%d.%d-%d.%d executed %d times with the reference secret, %d times with this one",
					e.file, p[0], p[2]&0xffff, p[1], p[2]>>16, ref[k], cur[k]))
			}
			k++
		}
	}
	return out
}

var sink []byte
var sinkb bool

func run(op string, sec, sec2, pub []byte) {
	switch op {
	case "keygen":
		sink = ed25519.NewKeyFromSeed(sec)
	case "generatekey":
		_, k, _ := ed25519.GenerateKey(bytes.NewReader(sec))
		sink = k
	case "sign":
		sink = ed25519.Sign(ed25519.NewKeyFromSeed(sec), pub)
	case "signctx":
		k := ed25519.NewKeyFromSeed(sec)
		s, _ := k.Sign(nil, pub, &ed25519.Options{Context: "some context"})
		sink = s
	case "signph":
		k := ed25519.NewKeyFromSeed(sec)
		d := sha512.Sum512(pub)
		s, _ := k.Sign(nil, d[:], &ed25519.Options{Context: "ph context", Hash: crypto.SHA512})
		sink = s
	case "x25519base":
		s, _ := x25519.X25519(sec, x25519.Basepoint)
		sink = s
	case "scalarbasemult":
		var dst, in [32]byte
		copy(in[:], sec)
		x25519.ScalarBaseMult(&dst, &in)
		sink = dst[:]
	case "edpriv":
		sink = x25519.EdPrivateKeyToX25519(ed25519.NewKeyFromSeed(sec))
	case "seed":
		k := ed25519.NewKeyFromSeed(sec)
		s := k.Seed()
		p := k.Public()
		sink = append(s, p.(ed25519.PublicKey)...)
	case "equal":
		sinkb = ed25519.PrivateKey(sec).Equal(ed25519.PrivateKey(sec2))
	default:
		panic(op)
	}
}

var ops = []string{"keygen", "generatekey", "sign", "signctx", "signph", "x25519base", "scalarbasemult", "edpriv", "seed", "equal"}

func structured(rnd *rand.Rand, n int) [][]byte {
	var out [][]byte
	fill := func(b byte) []byte { return bytes.Repeat([]byte{b}, n) }
	for _, b := range []byte{0, 0xff, 0x77, 0x88, 0x0f, 0xf0, 0x78, 0x99, 0x01, 0x80, 0x7f} {
		out = append(out, fill(b))
	}
	for i := 0; i < n*8; i++ { // every single-bit value
		s := make([]byte, n)
		s[i/8] = 1 << uint(i%8)
		out = append(out, s)
	}
	for i := 0; i < n; i++ { // one random byte, all others zero / 0xff
		s := make([]byte, n)
		s[i] = byte(rnd.Intn(255) + 1)
		out = append(out, s)
		t := fill(0xff)
		t[i] = byte(rnd.Intn(255))
		out = append(out, t)
	}
	for i := 1; i < n; i++ { // leading / trailing runs of zero bytes
		s := make([]byte, n)
		rnd.Read(s[:i])
		out = append(out, s)
		t := make([]byte, n)
		rnd.Read(t[i:])
		out = append(out, t)
	}
	return out
}

func main() {
	var (
		config  = flag.String("config", "K0", "")
		seed    = flag.Int64("seed", 1, "")
		n       = flag.Int("n", 1000, "random secrets per operation in this shard")
		shard   = flag.Int("shard", 0, "")
		secrets = flag.String("secrets", "", "file with lines '<op> <secret-hex>' (targeted secrets searched by the driver)")
		pubhex  = flag.String("pub", "", "")
		refhex  = flag.String("ref", "", "reference secret (32 bytes)")
		out     = flag.String("out", "", "")
		only    = flag.String("ops", "", "comma separated subset of operations")
	)
	flag.Parse()
	debug.SetGCPercent(-1)
	// one P: with several, a goroutine that migrates misses the per-P caches of sync.Pool and the like,
	// which makes block counts of correct pooling code vary from call to call
	runtime.GOMAXPROCS(1)
	rec := ev.New("C20", *config, fmt.Sprintf("count-%d", *shard), *seed)
	rec.SetProgress(*out + ".about")
	collect()
	nblocks := 0
	for _, e := range table {
		nblocks += len(e.count)
	}
	rec.ClassMax("max/count-monitor/instrumented-blocks", int64(nblocks))
	rec.ClassMax("max/count-monitor/instrumented-files", int64(len(table)))
	if nblocks == 0 {
		rec.Inconc("no instrumented block registered")
		rec.Write(*out)
		os.Exit(0)
	}
	pub, _ := hex.DecodeString(*pubhex)
	ref, _ := hex.DecodeString(*refhex)
	targeted := map[string][][]byte{}
	if *secrets != "" {
		f, err := os.Open(*secrets)
		if err == nil {
			sc := bufio.NewScanner(f)
			for sc.Scan() {
				p := strings.Fields(sc.Text())
				if len(p) == 2 {
					b, _ := hex.DecodeString(p[1])
					targeted[p[0]] = append(targeted[p[0]], b)
				}
			}
			f.Close()
		}
	}
	rnd := rand.New(rand.NewSource(*seed*1000 + int64(*shard)))
	var refVec, cur []uint32
	var noise int64
	for _, op := range ops {
		if *only != "" && !strings.Contains(","+*only+",", ","+op+",") {
			continue
		}
		ln := 32
		r1, r2 := ref, ref
		if op == "equal" {
			ln = 64
			k := make([]byte, 64)
			rand.New(rand.NewSource(*seed)).Read(k)
			r1, r2 = k, append([]byte(nil), k...)
		}
		// cases of this shard: (secret, secret2)
		type cs struct {
			a, b []byte
			kind string
		}
		var cases []cs
		if op == "equal" {
			if *shard == 0 {
				for i := 0; i < 64; i++ {
					for _, m := range []byte{1, 0x80, 0xff} {
						o := append([]byte(nil), r1...)
						o[i] ^= m
						cases = append(cases, cs{r1, o, "one-byte-differs"})
					}
				}
				inv := make([]byte, 64)
				for i := range inv {
					inv[i] = ^r1[i]
				}
				cases = append(cases, cs{r1, inv, "all-bytes-differ"})
			}
			for i := 0; i < *n/4; i++ {
				a := make([]byte, 64)
				rnd.Read(a)
				b := append([]byte(nil), a...)
				switch rnd.Intn(3) {
				case 0:
					cases = append(cases, cs{a, b, "equal-random"})
				case 1:
					b[rnd.Intn(64)] ^= byte(1 << uint(rnd.Intn(8)))
					cases = append(cases, cs{a, b, "one-bit-differs"})
				default:
					rnd.Read(b)
					cases = append(cases, cs{a, b, "unrelated"})
				}
			}
		} else {
			if *shard == 0 {
				for _, s := range structured(rnd, ln) {
					cases = append(cases, cs{s, s, "structured"})
				}
				for _, s := range targeted[op] {
					cases = append(cases, cs{s, s, "targeted"})
				}
				cases = append(cases, cs{ref, ref, "reference-again"})
			}
			for i := 0; i < *n; i++ {
				s := make([]byte, ln)
				rnd.Read(s)
				cases = append(cases, cs{s, s, "random"})
			}
		}
		// reference vector: unmeasured call with the reference secret, then the measured one
		run(op, r1, r2, pub)
		run(op, r1, r2, pub)
		reset()
		run(op, r1, r2, pub)
		refVec = snapshot(refVec)
		exec := 0
		for _, c := range refVec {
			if c != 0 {
				exec++
			}
		}
		rec.ClassMax("max/count-monitor/blocks-executed/"+op, int64(exec))
		if exec == 0 {
			rec.Inconc(op + ": no instrumented block executed")
			continue
		}
		nviol := 0
		measure := func(a, b []byte, dst []uint32) []uint32 {
			run(op, r1, r2, pub) // previous call used the reference secret
			reset()
			run(op, a, b, pub)
			return snapshot(dst)
		}
		for ci, c := range cases {
			if ci%1000 == 0 {
				// the collector is off during measurements (a collection empties sync.Pools, and a
				// pool miss in correct code is not the secret's doing); collect here instead
				runtime.GC()
			}
			rec.About(map[string]interface{}{"op": "ctcount", "ct_op": op, "secret_b": ev.Hex(c.a), "secret_b2": ev.Hex(c.b)})
			cur = measure(c.a, c.b, cur)
			rec.Eval("count/" + op + "/" + c.kind)
			rec.Nontrivial([]byte(*config), []byte(op), c.a, c.b)
			if !equalVec(refVec, cur) && nviol < 3 {
				// a difference counts only if it is the secret's: the reference vector must be reproducible
				// now, and the secret must produce the same differing vector three more times
				stable := equalVec(refVec, measure(r1, r2, nil))
				same := 0
				for i := 0; i < 3; i++ {
					if equalVec(cur, measure(c.a, c.b, nil)) {
						same++
					}
				}
				stable = stable && equalVec(refVec, measure(r1, r2, nil))
				if !stable || same < 3 {
					// the same secret gives different vectors: not the secret's doing; counted, and the
					// run is inconclusive only if this is frequent (see the end of main)
					rec.Class("count-monitor/differences-that-did-not-reproduce", 1)
					noise++
					continue
				}
				nviol++
				d := diff(refVec, cur)
				rec.Violate("block-counts", fmt.Sprintf("%s: basic-block execution counts depend on the secret (%s secret): %s", op, c.kind, strings.Join(d, "; ")),
					"ctcount/"+op, map[string]interface{}{"op": "ctcount", "ct_op": op, "secret_a": ev.Hex(r1), "secret_a2": ev.Hex(r2),
						"secret_b": ev.Hex(c.a), "secret_b2": ev.Hex(c.b), "public": ev.Hex(pub), "blocks": d})
			}
		}
	}
	if noise > 0 && noise*100 > rec.Evaluations {
		rec.Inconc(fmt.Sprintf("%d of %d block-count vectors differed without reproducing: the executions are not deterministic enough to judge", noise, rec.Evaluations))
	}
	if err := rec.Write(*out); err != nil {
		fmt.Fprintln(os.Stderr, err)
		os.Exit(3)
	}
}
