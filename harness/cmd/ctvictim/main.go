// ctvictim: traced victim for property C20.  Runs one warm-up call with a
// dummy secret, then the measured call between markBegin and markEnd; the
// lackey trace between the second pair of markers is compared across runs
// that differ only in the secret.
//
//	ctvictim <op> <secret-hex> <secret2-hex> <public-hex> [<warm-up secret-hex> <warm-up secret2-hex>]
package main

import (
	"bytes"
	"crypto"
	"crypto/sha512"
	"encoding/hex"
	"fmt"
	"os"
	"runtime"

	"github.com/oasisprotocol/ed25519"
	"github.com/oasisprotocol/ed25519/extra/x25519"
)

//go:noinline
func markBegin() {}

//go:noinline
func markEnd() {}

var sink []byte
var sinkb bool

func run(op string, sec, sec2, pub []byte) {
	switch op {
	case "keygen":
		markBegin()
		k := ed25519.NewKeyFromSeed(sec)
		markEnd()
		sink = k
	case "generatekey":
		r := bytes.NewReader(sec)
		markBegin()
		_, k, _ := ed25519.GenerateKey(r)
		markEnd()
		sink = k
	case "sign":
		k := ed25519.NewKeyFromSeed(sec)
		markBegin()
		s := ed25519.Sign(k, pub)
		markEnd()
		sink = s
	case "signctx":
		k := ed25519.NewKeyFromSeed(sec)
		o := &ed25519.Options{Context: "some context"}
		markBegin()
		s, _ := k.Sign(nil, pub, o)
		markEnd()
		sink = s
	case "signph":
		k := ed25519.NewKeyFromSeed(sec)
		d := sha512.Sum512(pub)
		o := &ed25519.Options{Context: "ph context", Hash: crypto.SHA512}
		markBegin()
		s, _ := k.Sign(nil, d[:], o)
		markEnd()
		sink = s
	case "x25519base":
		markBegin()
		s, _ := x25519.X25519(sec, x25519.Basepoint)
		markEnd()
		sink = s
	case "scalarbasemult":
		var dst, in [32]byte
		copy(in[:], sec)
		markBegin()
		x25519.ScalarBaseMult(&dst, &in)
		markEnd()
		sink = dst[:]
	case "edpriv":
		k := ed25519.NewKeyFromSeed(sec)
		markBegin()
		s := x25519.EdPrivateKeyToX25519(k)
		markEnd()
		sink = s
	case "seed":
		k := ed25519.NewKeyFromSeed(sec)
		markBegin()
		s := k.Seed()
		p := k.Public()
		markEnd()
		sink = append(s, p.(ed25519.PublicKey)...)
	case "equal":
		// sec and sec2 are full 64-byte private keys (not derived: the
		// comparison must be constant-time for any pair of equal length)
		k := ed25519.PrivateKey(sec)
		k2 := ed25519.PrivateKey(sec2)
		markBegin()
		b := k.Equal(k2)
		markEnd()
		sinkb = b
	default:
		panic(op)
	}
}

func main() {
	runtime.MemProfileRate = 0
	op := os.Args[1]
	sec, _ := hex.DecodeString(os.Args[2])
	sec2, _ := hex.DecodeString(os.Args[3])
	pub, _ := hex.DecodeString(os.Args[4])
	// warm-up with a fixed dummy secret of the same length: grows the stack
	// and performs lazy initialisation before the traced window
	dummy := make([]byte, len(sec))
	for i := range dummy {
		dummy[i] = 0x42
	}
	dummy2 := make([]byte, len(sec2))
	for i := range dummy2 {
		dummy2[i] = 0x42
	}
	// optional: the warm-up call uses the given (reference) secrets instead, so
	// that the measured call of the reference execution repeats the previous
	// secret while every other execution changes it
	if len(os.Args) > 6 {
		w1, _ := hex.DecodeString(os.Args[5])
		w2, _ := hex.DecodeString(os.Args[6])
		if len(w1) == len(sec) && len(w2) == len(sec2) {
			dummy, dummy2 = w1, w2
		}
	}
	run(op, dummy, dummy2, pub)
	run(op, sec, sec2, pub)
	fmt.Println(hex.EncodeToString(sink), sinkb)
}
