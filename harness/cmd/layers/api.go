//go:build verifmon

package main

import (
	"math/rand"

	"github.com/oasisprotocol/ed25519"
	"github.com/oasisprotocol/ed25519/extra/x25519"
	"github.com/oasisprotocol/ed25519/verifh/ev"
	"github.com/oasisprotocol/ed25519/verifh/gen"
	"github.com/oasisprotocol/ed25519/verifh/mon"
	"github.com/oasisprotocol/ed25519/verifh/ref"
)

func libOpts(v ref.Variant, zip bool) *ed25519.Options {
	o := &ed25519.Options{ZIP215Verify: zip}
	if v.Ph {
		o.Hash = 7 // crypto.SHA512
	}
	if !v.Pure {
		o.Context = string(v.Ctx)
	}
	return o
}

func safe(fn func()) {
	defer func() { _ = recover() }()
	fn()
}

// apiRounds performs real API executions so that the installed monitors
// observe the internal operations as the library itself drives them.
func apiRounds(cfg *Cfg, rec *ev.Rec, n int, stream string) {
	rng := cfg.rng(stream)
	so := ref.SmallOrderEncodings()
	mon.Phase = "api"
	defer func() { mon.Phase = "direct" }()
	for i := 0; i < n; i++ {
		rec.Eval("api-round")
		safe(func() {
			v := gen.Variant(rng, -1)
			seed := gen.Seed(rng)
			msg := gen.MsgFor(rng, v)
			priv := ed25519.NewKeyFromSeed(seed)
			var sig []byte
			if v.Pure {
				sig = ed25519.Sign(priv, msg)
			} else {
				sig, _ = priv.Sign(nil, msg, libOpts(v, false))
			}
			pub := priv.Public().(ed25519.PublicKey)
			ed25519.VerifyWithOptions(pub, msg, sig, libOpts(v, false))
			// hostile verifications: torsion mixtures, small-order keys with boundary S, garbage
			t := gen.Torsion(rng, rng.Intn(8), rng.Intn(8), rng.Intn(6) == 0, rng.Intn(6) == 0, -1)
			ed25519.VerifyWithOptions(t.Pub, t.Msg, t.Sig, libOpts(t.V, rng.Intn(2) == 0))
			sb := gen.SBound(rng)
			k := gen.SmallKey(rng, so[rng.Intn(14)], sb[rng.Intn(len(sb))], rng.Intn(8), -1)
			ed25519.VerifyWithOptions(k.Pub, k.Msg, k.Sig, libOpts(k.V, true))
			g, _ := gen.Garbage32(rng)
			ed25519.VerifyWithOptions(g, msg, sig, libOpts(v, true))
			// X25519 both paths and conversions
			scs := gen.XScalars(rng)
			s := scs[rng.Intn(len(scs))]
			x25519.X25519(s, x25519.Basepoint)
			x25519.X25519(s, gen.RandBytes(rng, 32))
			x25519.EdPublicKeyToX25519(pub)
			x25519.EdPublicKeyToX25519(g)
			x25519.EdPrivateKeyToX25519(priv)
			if i%8 == 0 {
				apiBatch(rng, []int{4, 5, 9, 64, 70}[rng.Intn(5)], i%16 == 0)
			}
		})
	}
}

// apiBatch runs one VerifyBatch with model-built members.
func apiBatch(rng *rand.Rand, n int, withBad bool) (ok bool, valid []bool) {
	v := gen.Variant(rng, -1)
	var pool []gen.Triple
	for k := 0; k < 3; k++ {
		sd := gen.Seed(rng)
		msg := gen.MsgFor(rng, v)
		pub, sig := ref.Sign(sd, msg, v)
		pool = append(pool, gen.Triple{Pub: pub, Msg: msg, Sig: sig})
	}
	a, r := gen.RandScalar(rng), gen.RandScalar(rng)
	A := gen.NewKeyPoint(rng, a, rng.Intn(8), -1)
	R := gen.NewKeyPoint(rng, r, rng.Intn(8), -1)
	msg := gen.MsgFor(rng, v)
	pool = append(pool, gen.Triple{Pub: A.Enc, Msg: msg, Sig: ref.SignWith(a, r, A.Enc, R.Enc, msg, v)})
	keys := make([]ed25519.PublicKey, n)
	msgs := make([][]byte, n)
	sigs := make([][]byte, n)
	for i := 0; i < n; i++ {
		t := pool[rng.Intn(len(pool))].Clone()
		if withBad && rng.Intn(n) == 0 {
			t.Sig[rng.Intn(64)] ^= 1
		}
		keys[i], msgs[i], sigs[i] = t.Pub, t.Msg, t.Sig
	}
	ok, valid, _ = ed25519.VerifyBatch(rand.New(rand.NewSource(rng.Int63())), keys, msgs, sigs, libOpts(v, rng.Intn(2) == 0))
	return
}
