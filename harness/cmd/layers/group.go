//go:build verifmon

package main

import (
	"fmt"
	"math/big"
	"math/rand"

	"github.com/oasisprotocol/ed25519/internal/ge25519"
	"github.com/oasisprotocol/ed25519/internal/modm"
	"github.com/oasisprotocol/ed25519/verifh/ev"
	"github.com/oasisprotocol/ed25519/verifh/gen"
	"github.com/oasisprotocol/ed25519/verifh/mon"
	"github.com/oasisprotocol/ed25519/verifh/ref"
)

func init() {
	workloads["C16"] = runC16
	replayers["group"] = replayGroup
}

// selectorExhaustive: all 32 positions x 17 digits through the real
// selector into a canary-guarded destination.
func selectorExhaustive(rec *ev.Rec) {
	for pos := 0; pos < 32; pos++ {
		for b := -8; b <= 8; b++ {
			ys, xa, t2, canary := ge25519.VerifChooseNiels(pos, int8(b))
			rec.Eval("selector-exhaustive")
			rec.Nontrivial([]byte{byte(pos), byte(b), 's'})
			if !canary {
				rec.Violate("group/scalarmultBaseChooseNiels", fmt.Sprintf("selector wrote outside its destination (pos=%d digit=%d)", pos, b), "group/selector-canary",
					map[string]interface{}{"op": "layer", "layer": "group", "fn": "scalarmultBaseChooseNiels", "pos": pos, "digit": b})
			}
			// the wrapper's monitor has judged the call already; judge again
			// here in case the wrapper could not be generated
			mon.CheckSelector(pos, int8(b), &ys, &xa, &t2, false)
		}
	}
}

// tableCheck: the (y-x, y+x) halves of all 256 rows are those of
// [k*256^pos]B (k = 1..8), by the model.
func tableCheck(rec *ev.Rec) {
	for pos := 0; pos < 32; pos++ {
		base := new(big.Int).Lsh(one, uint(8*pos))
		for k := 1; k <= 8; k++ {
			pt := ref.ScalarMult(new(big.Int).Mul(base, big.NewInt(int64(k))), ref.B)
			row := ge25519.NielsBaseMultiples[pos*8+k-1]
			ys := new(big.Int).Mod(new(big.Int).Sub(pt.Y, pt.X), ref.P)
			xa := new(big.Int).Mod(new(big.Int).Add(pt.Y, pt.X), ref.P)
			rec.Eval("table-row")
			if new(big.Int).Mod(ref.LEInt(row[0:32]), ref.P).Cmp(ys) != 0 || new(big.Int).Mod(ref.LEInt(row[32:64]), ref.P).Cmp(xa) != 0 {
				rec.Violate("group/table", fmt.Sprintf("base-point table row %d (pos %d, multiple %d) is not (y-x, y+x) of [%d*256^%d]B", pos*8+k-1, pos, k, k, pos), "group/table",
					map[string]interface{}{"op": "layer", "layer": "group", "fn": "table", "row": pos*8 + k - 1})
			}
		}
	}
}

// constantsCheck: curve constants and the odd multiples of the base point
// used by the double-base multiplication, against the model.
func constantsCheck(rec *ev.Rec) {
	bad := func(what string) {
		rec.Violate("group/constants", what, "group/constants", map[string]interface{}{"op": "layer", "layer": "group", "fn": "table"})
	}
	d, d2, sm1 := ge25519.VerifConstants()
	modp := func(x *big.Int) *big.Int { return new(big.Int).Mod(x, ref.P) }
	rec.Eval("constants")
	if modp(mon.FVal(&d)).Cmp(ref.D) != 0 {
		bad("curve constant d differs from -121665/121666")
	}
	if modp(mon.FVal(&d2)).Cmp(modp(new(big.Int).Lsh(ref.D, 1))) != 0 {
		bad("curve constant 2d differs from the model")
	}
	sq := modp(new(big.Int).Mul(mon.FVal(&sm1), mon.FVal(&sm1)))
	if sq.Cmp(new(big.Int).Sub(ref.P, one)) != 0 {
		bad("sqrt(-1) constant does not square to -1")
	}
	bp := ge25519.Basepoint
	if a, ok := mon.Affine(&bp); !ok || !ref.Eq(a, ref.B) || !feqInt(new(big.Int).Mul(mon.FVal(bp.VerifT()), mon.FVal(bp.Z())), new(big.Int).Mul(mon.FVal(bp.X()), mon.FVal(bp.Y()))) {
		bad("the base point constant of the group package is not B (or its extended coordinate is inconsistent)")
	}
	for i := 0; i < 32; i++ {
		ys, xa, t2 := ge25519.VerifSlidingMultiple(i)
		pt := ref.ScalarMult(big.NewInt(int64(2*i+1)), ref.B)
		wy := modp(new(big.Int).Sub(pt.Y, pt.X))
		wx := modp(new(big.Int).Add(pt.Y, pt.X))
		wt := modp(new(big.Int).Mul(new(big.Int).Lsh(ref.D, 1), new(big.Int).Mul(pt.X, pt.Y)))
		rec.Eval("sliding-multiple")
		if modp(mon.FVal(&ys)).Cmp(wy) != 0 || modp(mon.FVal(&xa)).Cmp(wx) != 0 || modp(mon.FVal(&t2)).Cmp(wt) != 0 {
			bad(fmt.Sprintf("precomputed multiple [%d]B of the double-base table is not (y-x, y+x, 2dxy)", 2*i+1))
		}
	}
}

func feqInt(a, b *big.Int) bool {
	return new(big.Int).Mod(a, ref.P).Cmp(new(big.Int).Mod(b, ref.P)) == 0
}

func moveCondWorkload(rng *rand.Rand, rec *ev.Rec, n int) {
	for i := 0; i < n; i++ {
		var out, in [96]byte
		rng.Read(out[:])
		rng.Read(in[:])
		if i%7 == 0 {
			for k := range in {
				in[k] = 0xff
			}
		}
		flag := uint64(i & 1)
		mis := rng.Intn(8)
		res, intact := ge25519.VerifMoveConditional(&out, &in, flag, mis)
		want := out
		if flag == 1 {
			want = in
		}
		rec.Eval("cmov")
		rec.Class(fmt.Sprintf("cmov/misalign=%d/flag=%d", mis, flag), 1)
		if res != want || !intact {
			rec.Violate("group/moveConditionalBytes", fmt.Sprintf("conditional move flag=%d misalign=%d: wrong destination or write outside the 96 bytes", flag, mis), "group/cmov",
				map[string]interface{}{"op": "layer", "layer": "group", "fn": "moveConditionalBytes", "flag": flag, "misalign": mis, "out": ev.Hex(out[:]), "in": ev.Hex(in[:])})
		}
	}
}

// scalars for the fixed-base path: raw 255-bit values (X25519) and reduced ones
func fixedBaseScalar(rng *rand.Rand) sc {
	var s sc
	switch rng.Intn(8) {
	case 0:
		s = mon.SSet(big.NewInt(int64(rng.Intn(3))))
	case 1:
		s = mon.SSet(new(big.Int).Sub(ref.L, big.NewInt(int64(1+rng.Intn(2)))))
	case 2:
		s = mon.SSet(new(big.Int).Add(p2_252, big.NewInt(int64(rng.Intn(5)-2))))
	case 3: // clamped 255-bit values
		b := gen.RandBytes(rng, 32)
		b[0] &= 248
		b[31] &= 127
		b[31] |= 64
		modm.ExpandRaw(&s, b)
	case 4: // carry runs
		xs := gen.XScalars(rng)
		b := append([]byte(nil), xs[rng.Intn(len(xs))]...)
		b[31] &= 127
		modm.ExpandRaw(&s, b)
	case 5:
		s = mon.SSet(new(big.Int).Sub(new(big.Int).Sub(gen.P2_255, one), big.NewInt(int64(rng.Intn(16)))))
	default:
		s = mon.SSet(gen.RandBelow(rng, ref.L))
	}
	return s
}

func reducedScalar(rng *rand.Rand) sc {
	switch rng.Intn(8) {
	case 0:
		return mon.SSet(big.NewInt(0))
	case 1:
		return mon.SSet(big.NewInt(1))
	case 2:
		return mon.SSet(new(big.Int).Sub(ref.L, one))
	case 3: // top slice [2^252, L)
		return mon.SSet(new(big.Int).Add(p2_252, gen.RandBelow(rng, new(big.Int).Sub(ref.L, p2_252))))
	case 4:
		return mon.SSet(gen.RandBelow(rng, new(big.Int).Lsh(one, 128)))
	}
	return mon.SSet(gen.RandBelow(rng, ref.L))
}

func unpack(enc []byte) (ge25519.Ge25519, bool) {
	var p ge25519.Ge25519
	ok := ge25519.UnpackVartime(&p, enc)
	return p, ok
}

func basePointP(rng *rand.Rand) ([]byte, string) {
	switch rng.Intn(7) {
	case 0:
		return ref.Encode(ref.B), "B"
	case 1:
		return ref.Encode(ref.Neg(ref.B)), "-B"
	case 2:
		return ref.Encode(ref.Identity()), "identity"
	case 3:
		t := rng.Intn(8)
		encs := ref.Encodings(ref.Tors[t])
		return encs[rng.Intn(len(encs))], fmt.Sprintf("torsion-order-%d", ref.TorsOrder(t))
	case 4:
		kp := gen.NewKeyPoint(rng, gen.RandScalar(rng), 1+rng.Intn(7), -1)
		return kp.Enc, "mixed-order"
	}
	kp := gen.NewKeyPoint(rng, gen.RandScalar(rng), 0, 0)
	return kp.Enc, "honest"
}

func runC16(cfg *Cfg, rec *ev.Rec) {
	mon.Install(rec, cfg.Config, false, true, true, false)
	rng := cfg.rng("c16")
	if cfg.Shard == 0 {
		selectorExhaustive(rec)
		tableCheck(rec)
		constantsCheck(rec)
	}
	if cfg.Shard == 1%cfg.NShards {
		selectorExhaustive(rec)
		moveCondWorkload(rng, rec, 2000)
	}
	// digit-pattern scalars: every attainable (position, digit) of the radix-16 recoding
	item := 0
	for pos := 0; pos < 64; pos++ {
		for d := -8; d <= 8; d++ {
			if (pos < 63 && d == 8) || (pos == 63 && d < 0) {
				continue
			}
			if cfg.mine(item) {
				var s sc
				modm.ExpandRaw(&s, ref.LEBytes(w4Target(rng, pos, d), 32))
				var r ge25519.Ge25519
				ge25519.ScalarmultBaseNiels(&r, &ge25519.NielsBaseMultiples, &s)
				rec.Eval("fixed-base/digit-target")
			}
			item++
		}
	}
	// carry runs through the radix-16 recoding: a run of nibbles 7 (or f) of limb-related and other
	// lengths at every nibble offset, entered by a carry from the nibble below (>= 8); the rest random
	// (ninth seed wave: a carry lost at a 56-bit limb boundary of ContractWindow4)
	for _, nib := range []byte{7, 0xf} {
		for off := 1; off < 64; off++ {
			for _, l := range []int{1, 2, 7, 8, 13, 14, 15, 16, 28, 64} {
				if off+l > 63 {
					l = 63 - off
				}
				if l < 1 {
					continue
				}
				if cfg.mine(item) {
					b := gen.RandBytes(rng, 32)
					setNib := func(k int, v byte) {
						if k%2 == 0 {
							b[k/2] = b[k/2]&0xf0 | v
						} else {
							b[k/2] = b[k/2]&0x0f | v<<4
						}
					}
					setNib(off-1, byte(8+rng.Intn(8)))
					for k := off; k < off+l; k++ {
						setNib(k, nib)
					}
					b[31] &= 127
					var s sc
					modm.ExpandRaw(&s, b)
					var r ge25519.Ge25519
					ge25519.ScalarmultBaseNiels(&r, &ge25519.NielsBaseMultiples, &s)
					rec.Eval("fixed-base/carry-run")
				}
				item++
			}
		}
	}
	n := cfg.n(2400, 150000)
	for i := 0; i < n; i++ {
		if i%2 == 0 {
			s := fixedBaseScalar(rng)
			var r ge25519.Ge25519
			ge25519.ScalarmultBaseNiels(&r, &ge25519.NielsBaseMultiples, &s)
			rec.Eval("fixed-base")
			rec.Nontrivial([]byte(fmt.Sprint(s)))
		} else {
			enc, cls := basePointP(rng)
			p, ok := unpack(enc)
			if !ok {
				continue
			}
			s1, s2 := reducedScalar(rng), reducedScalar(rng)
			var r ge25519.Ge25519
			ge25519.DoubleScalarmultVartime(&r, &p, &s1, &s2)
			rec.Eval("double-base", "double-base/P="+cls)
			rec.Nontrivial(enc, []byte(fmt.Sprint(s1, s2)))
		}
	}
	// group-law building blocks with small-order / identity operands
	for i := 0; i < cfg.n(400, 20000); i++ {
		e1, _ := basePointP(rng)
		e2, _ := basePointP(rng)
		p, ok1 := unpack(e1)
		q, ok2 := unpack(e2)
		if !ok1 || !ok2 {
			continue
		}
		var r ge25519.Ge25519
		ge25519.Add(&r, &p, &q)
		ge25519.Add(&r, &r, &r)
		ge25519.Double(&r, &p)
		ge25519.CofactorMultiply(&r, &q)
		ge25519.IsNeutralVartime(&r)
		ge25519.CofactorEqual(&p, &q)
		var out [32]byte
		ge25519.Pack(out[:], &r)
		rec.Eval("group-law")
	}
	apiRounds(cfg, rec, cfg.n(160, 3200), "c16-api")
}

func replayGroup(rec *ev.Rec, c map[string]interface{}) {
	fn := str(c, "fn")
	getSc := func(k string) *sc {
		var s sc
		l := u64s(c[k])
		for i := 0; i < modm.LimbSize && i < len(l); i++ {
			s[i] = modm.Element(l[i])
		}
		return &s
	}
	getPt := func(k string) *ge25519.Ge25519 {
		m, _ := c[k].(map[string]interface{})
		if m == nil {
			return nil
		}
		x, y, z, t := feFromLimbs(u64s(m["x"])), feFromLimbs(u64s(m["y"])), feFromLimbs(u64s(m["z"])), feFromLimbs(u64s(m["t"]))
		var p ge25519.Ge25519
		ge25519.VerifSet(&p, &x, &y, &z, &t)
		return &p
	}
	var r ge25519.Ge25519
	switch fn {
	case "ScalarmultBaseNiels":
		ge25519.ScalarmultBaseNiels(&r, &ge25519.NielsBaseMultiples, getSc("scalar"))
	case "DoubleScalarmultVartime":
		ge25519.DoubleScalarmultVartime(&r, getPt("point0"), getSc("s1"), getSc("s2"))
	case "Add":
		ge25519.Add(&r, getPt("point0"), getPt("point1"))
	case "Double":
		ge25519.Double(&r, getPt("point0"))
	case "CofactorMultiply":
		ge25519.CofactorMultiply(&r, getPt("point0"))
	case "ProjectiveToExtended":
		ge25519.ProjectiveToExtended(&r, getPt("point0"))
	case "CofactorEqual":
		ge25519.CofactorEqual(getPt("point0"), getPt("point1"))
	case "IsNeutralVartime":
		ge25519.IsNeutralVartime(getPt("point0"))
	case "Pack":
		var out [32]byte
		ge25519.Pack(out[:], getPt("point0"))
	case "UnpackVartime":
		ge25519.UnpackVartime(&r, ev.UnHex(str(c, "in")))
	case "UnpackNegativeVartime":
		ge25519.UnpackNegativeVartime(&r, ev.UnHex(str(c, "in")))
	case "scalarmultBaseChooseNiels":
		ge25519.VerifChooseNiels(int(num(c["pos"])), int8(num(c["digit"])))
	case "moveConditionalBytes", "table":
		selectorExhaustive(rec)
		tableCheck(rec)
		moveCondWorkload(rand.New(rand.NewSource(1)), rec, 500)
	}
}
