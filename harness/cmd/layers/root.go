//go:build verifmon

package main

import (
	"fmt"
	"math/big"
	"math/rand"

	"github.com/oasisprotocol/ed25519"
	"github.com/oasisprotocol/ed25519/internal/ge25519"
	"github.com/oasisprotocol/ed25519/verifh/ev"
	"github.com/oasisprotocol/ed25519/verifh/gen"
	"github.com/oasisprotocol/ed25519/verifh/mon"
	"github.com/oasisprotocol/ed25519/verifh/ref"
)

func init() {
	workloads["C17"] = runC17
	workloads["C04"] = runC04inside
	workloads["C09"] = runC09inside
	replayers["msm"] = replayMSM
	replayers["root"] = replayRoot
	replayers["fallback"] = replayFallback
}

var two128 = new(big.Int).Lsh(one, 128)

func pick(rng *rand.Rand, lim *big.Int, style int) *big.Int {
	switch style {
	case 0:
		return big.NewInt(0)
	case 1:
		return big.NewInt(1)
	case 2:
		return new(big.Int).Sub(lim, one)
	case 3: // even
		x := gen.RandBelow(rng, lim)
		return x.And(x, new(big.Int).Sub(new(big.Int).Lsh(one, 300), big.NewInt(2)))
	case 4: // multiple of 6
		x := gen.RandBelow(rng, new(big.Int).Div(lim, big.NewInt(6)))
		return x.Mul(x, big.NewInt(6))
	case 5: // small
		return big.NewInt(int64(rng.Intn(1000)))
	}
	return gen.RandBelow(rng, lim)
}

// simulate the Bos-Coster schedule on integers; -1 if it does not finish
// within the step cap (subtractive Euclid can need 2^125 steps).
func simulate(scs []*big.Int, count int) int {
	const stepCap = 200000
	v := make([]*big.Int, count)
	for i := range v {
		v[i] = new(big.Int).Set(scs[i])
	}
	active := ((count + 1) / 2) | 1
	extended := false
	steps := 0
	for {
		m1, m2 := -1, -1
		for i := 0; i < active; i++ {
			if m1 < 0 || v[i].Cmp(v[m1]) > 0 {
				m2 = m1
				m1 = i
			} else if m2 < 0 || v[i].Cmp(v[m2]) > 0 {
				m2 = i
			}
		}
		if v[m2].Sign() == 0 {
			if extended || active == count {
				return steps
			}
			// the first part collapsed to one scalar before the extension:
			// it is folded into a partial result and the rest is processed
			v[m1].SetInt64(0)
			active = count
			extended = true
			continue
		}
		if !extended && v[m1].Cmp(two128) < 0 {
			active = count
			extended = true
			continue
		}
		v[m1].Sub(v[m1], v[m2])
		steps++
		if steps > stepCap {
			return -1
		}
	}
}

type msmPoint struct {
	enc []byte
}

func msmPool(rng *rand.Rand) [][]byte {
	pool := [][]byte{ref.Encode(ref.B)}
	for i := 0; i < 24; i++ {
		t := rng.Intn(8)
		if i%2 == 0 {
			t = 0
		}
		kp := gen.NewKeyPoint(rng, gen.RandScalar(rng), t, 0)
		pool = append(pool, kp.Enc)
	}
	pool = append(pool, ref.Encode(ref.Neg(ref.B)), ref.Encode(ref.Identity()), ref.Encode(ref.Tors[4]), ref.Encode(ref.Tors[1]))
	return pool
}

// runHeap feeds one batch-shaped heap to the real routine; the RootHook
// monitor on multiScalarmultVartime judges it.
func runHeap(encs [][]byte, scs []*big.Int) bool {
	pts := make([]ge25519.Ge25519, len(encs))
	ss := make([]sc, len(encs))
	for i := range encs {
		if !ge25519.UnpackVartime(&pts[i], encs[i]) {
			return false
		}
		ss[i] = mon.SSet(scs[i])
	}
	ed25519.VerifMultiScalarmult(pts, ss)
	return true
}

// batchShaped derives the 2n+1 scalars exactly as VerifyBatch does from
// adversarially chosen tuples (r_i, h_i, S_i), h_i != 0.
func batchShaped(rng *rand.Rand, n int) (scs []*big.Int, nzr int, styles string) {
	count := 2*n + 1
	rstyle, hstyle, sstyle := rng.Intn(8), rng.Intn(8), rng.Intn(8)
	mixed := rng.Intn(2) == 0
	scs = make([]*big.Int, count)
	scs[0] = new(big.Int)
	for i := 0; i < n; i++ {
		rs, hs, ss := rstyle, hstyle, sstyle
		if mixed {
			rs, hs, ss = rng.Intn(8), rng.Intn(8), rng.Intn(8)
		}
		r := pick(rng, two128, rs)
		h := pick(rng, ref.L, hs)
		if h.Sign() == 0 {
			h = big.NewInt(1) // h = 0 needs a SHA-512 preimage
		}
		S := pick(rng, ref.L, ss)
		scs[0].Add(scs[0], new(big.Int).Mul(r, S))
		scs[i+1] = new(big.Int).Mod(new(big.Int).Mul(r, h), ref.L)
		scs[n+1+i] = r
		if r.Sign() != 0 {
			nzr++
		}
	}
	scs[0].Mod(scs[0], ref.L)
	return scs, nzr, fmt.Sprintf("%d/%d/%d/mixed=%v", rstyle, hstyle, sstyle, mixed)
}

func runC17(cfg *Cfg, rec *ev.Rec) {
	mon.Install(rec, cfg.Config, false, false, false, true)
	rng := cfg.rng("c17")
	pool := msmPool(rng)
	// (a) direct batch-shaped heaps
	nh := cfg.n(320, 6000)
	for it := 0; it < nh; it++ {
		n := 2 + rng.Intn(63)
		if it%5 == 0 {
			n = []int{2, 3, 4, 5, 63, 64}[rng.Intn(6)]
		}
		scs, nzr, styles := batchShaped(rng, n)
		count := 2*n + 1
		if simulate(scs, count) < 0 {
			rec.Class("msm/dropped-by-step-cap", 1)
			continue
		}
		encs := make([][]byte, count)
		encs[0] = pool[0]
		for i := 1; i < count; i++ {
			encs[i] = pool[rng.Intn(len(pool))]
		}
		rec.About(map[string]interface{}{"op": "layer", "layer": "msm", "styles": styles, "n": n})
		runHeap(encs, scs)
		par := "even"
		if n%2 == 1 {
			par = "odd"
		}
		rec.Eval("msm-direct", "msm-direct/n-"+par, fmt.Sprintf("msm-direct/nonzero-r=%s", bucket(nzr, n)))
		parts := [][]byte{}
		for _, s := range scs[:3] {
			parts = append(parts, s.Bytes())
		}
		rec.Nontrivial(append(parts, []byte(fmt.Sprint(n, styles)))...)
	}
	// residual scalar != 0/1: all scalars share a factor (even / multiples of 6 / equal)
	for it := 0; it < cfg.n(48, 1200); it++ {
		n := 2 + rng.Intn(12)
		count := 2*n + 1
		f := []int64{2, 4, 6, 3, 10, 12345}[rng.Intn(6)]
		scs := make([]*big.Int, count)
		for i := range scs {
			lim := ref.L
			if i > n {
				lim = two128
			}
			x := gen.RandBelow(rng, new(big.Int).Div(lim, big.NewInt(f)))
			scs[i] = x.Mul(x, big.NewInt(f))
			if rng.Intn(6) == 0 {
				scs[i] = big.NewInt(f * int64(rng.Intn(4)))
			}
		}
		if simulate(scs, count) < 0 {
			rec.Class("msm/dropped-by-step-cap", 1)
			continue
		}
		encs := make([][]byte, count)
		for i := range encs {
			encs[i] = pool[rng.Intn(len(pool))]
		}
		runHeap(encs, scs)
		rec.Eval("msm-direct", "msm-direct/common-factor")
	}
	// residual-scalar magnitude sweep: the final exponentiation (and, on the
	// early-collapse path, the partial one) is driven with a residual scalar of
	// every bit length, in particular lengths of the form k*BitsPerLimb + 1
	item := 0
	for b := 1; b <= 252; b++ {
		if !cfg.mine(item) {
			item++
			continue
		}
		item++
		g := new(big.Int).Lsh(one, uint(b-1))
		if b > 1 {
			g.Add(g, gen.RandBelow(rng, new(big.Int).Lsh(one, uint(b-1))))
		}
		// (i) early collapse: s0 = 0 and a single non-zero leading scalar g; one
		// non-zero randomiser whose bit length is swept as well
		n := 2 + rng.Intn(3)
		count := 2*n + 1
		scs := make([]*big.Int, count)
		for i := range scs {
			scs[i] = big.NewInt(0)
		}
		j := rng.Intn(n)
		scs[1+j] = new(big.Int).Mod(g, ref.L)
		rb := 1 + (b*127)/252
		r := new(big.Int).Lsh(one, uint(rb-1))
		if rb > 1 {
			r.Add(r, gen.RandBelow(rng, new(big.Int).Lsh(one, uint(rb-1))))
		}
		scs[n+1+j] = r
		encs := make([][]byte, count)
		for i := range encs {
			encs[i] = pool[rng.Intn(len(pool))]
		}
		if simulate(scs, count) >= 0 {
			runHeap(encs, scs)
			rec.Eval("msm-direct", "msm-direct/residual-magnitude-early-collapse")
			rec.Class(fmt.Sprintf("msm-direct/partial-scalar-bits=%s", bitClass(b)), 1)
		}
		// (ii) ordinary termination on a residual scalar g (all scalars are
		// multiples of g with small coprime cofactors), possible while g*d < 2^128
		if b <= 118 {
			cof := []int64{1, 2, 3, 5, 7, 11, 13, 17, 19}
			for i := range scs {
				scs[i] = new(big.Int).Mul(g, big.NewInt(cof[rng.Intn(len(cof))]))
			}
			scs[1] = new(big.Int).Set(g)
			if simulate(scs, count) >= 0 {
				runHeap(encs, scs)
				rec.Eval("msm-direct", "msm-direct/residual-magnitude-final")
				rec.Class(fmt.Sprintf("msm-direct/final-scalar-bits=%s", bitClass(b)), 1)
			}
		}
	}
	// known finding D4: one fixed witness of the family (exactly one non-zero
	// randomiser and s0 = 0), reported as KNOWN-FINDING only if it still fails
	if cfg.Shard == 0 {
		n := 4
		count := 2*n + 1
		scs := make([]*big.Int, count)
		for i := range scs {
			scs[i] = big.NewInt(0)
		}
		r := new(big.Int).SetBytes([]byte{0x5a, 0x17, 0x33, 0x01, 0x44, 0x99, 0x10, 0x22, 0x5a, 0x17, 0x33, 0x01, 0x44, 0x99, 0x10, 0x23})
		h, _ := new(big.Int).SetString("3b1d0c8fd4e0a9f2c5b37e6a91d2f08c4e5a6b7c8d9e0f1a2b3c4d5e6f708192", 16)
		h.Mod(h, ref.L)
		scs[2] = new(big.Int).Mod(new(big.Int).Mul(r, h), ref.L)
		scs[n+2] = r
		encs := make([][]byte, count)
		for i := range encs {
			encs[i] = pool[1+i%5]
		}
		encs[0] = pool[0]
		runHeap(encs, scs)
		rec.Eval("msm-direct", "msm-direct/D4-witness")
	}
	// (b) API batches whose members are all valid: judged inside by the MSM
	// monitor and outside by the fallback counter, which must stay 0
	nb := cfg.n(400, 10000)
	for it := 0; it < nb; it++ {
		fallbackBatch(rng, rec, it)
	}
}

func bitClass(b int) string {
	lo := ((b - 1) / 32) * 32
	return fmt.Sprintf("%d-%d", lo+1, lo+32)
}

func bucket(k, n int) string {
	switch {
	case k == 0:
		return "0"
	case k == 1:
		return "1"
	case k == n:
		return "all"
	}
	return "some"
}

type fbCase struct {
	N        int
	Zip      bool
	V        ref.Variant
	EKind    string
	ESeed    int64
	MSeed    int64 // seed of the member generator
	PrevBad  bool  // preceded (in the same call) by a chunk that falls back
	Repeated bool
}

var fbEntropy = []string{"uniform", "uniform", "uniform", "zero", "ones", "tiny", "block", "chunk1"}

func fallbackBatch(rng *rand.Rand, rec *ev.Rec, it int) {
	c := fbCase{ESeed: rng.Int63(), MSeed: rng.Int63(), Zip: rng.Intn(2) == 0, V: gen.Variant(rng, -1)}
	sizes := []int{4, 5, 6, 7, 8, 9, 16, 31, 32, 33, 63, 64}
	multi := []int{65, 68, 69, 70, 127, 128, 129, 132, 192, 200}
	c.N = sizes[rng.Intn(len(sizes))]
	if it%6 == 0 {
		c.N = multi[rng.Intn(len(multi))]
	}
	c.EKind = fbEntropy[rng.Intn(len(fbEntropy))]
	c.PrevBad = it%9 == 0
	c.Repeated = it%4 == 0
	judgeFallback(rec, &c)
}

type entropyReader struct {
	kind  string
	r     *rand.Rand
	block [16]byte
	off   int
}

func (e *entropyReader) Read(p []byte) (int, error) {
	switch e.kind {
	case "zero":
		for i := range p {
			p[i] = 0
		}
	case "ones":
		for i := range p {
			p[i] = 0xff
		}
	case "tiny":
		for i := range p {
			p[i] = 0x01
		}
	case "block":
		for i := range p {
			p[i] = e.block[e.off%16]
			e.off++
		}
	case "chunk1":
		return e.r.Read(p[:1])
	default:
		return e.r.Read(p)
	}
	return len(p), nil
}

func newEntropy(kind string, seed int64) *entropyReader {
	e := &entropyReader{kind: kind, r: rand.New(rand.NewSource(seed))}
	rand.New(rand.NewSource(seed ^ 0x5555)).Read(e.block[:])
	return e
}

// judgeFallback: a batch of individually valid members must be accepted by
// the batch equation itself, chunk by chunk (fallback counter unchanged).
func judgeFallback(rec *ev.Rec, c *fbCase) {
	cs := map[string]interface{}{"op": "layer", "layer": "fallback", "n": c.N, "zip215": c.Zip, "pure": c.V.Pure, "ph": c.V.Ph, "ctx": ev.Hex(c.V.Ctx),
		"entropy": c.EKind, "eseed": c.ESeed, "mseed": c.MSeed, "prevbad": c.PrevBad, "repeated": c.Repeated}
	rec.About(cs)
	rng := rand.New(rand.NewSource(c.MSeed))
	so := ref.SmallOrderEncodings()
	var pool []gen.Triple
	np := 4
	if c.Repeated {
		np = 1
	}
	for k := 0; k < np; k++ {
		sd := gen.Seed(rng)
		msg := gen.MsgFor(rng, c.V)
		pub, sig := ref.Sign(sd, msg, c.V)
		pool = append(pool, gen.Triple{Pub: pub, Msg: msg, Sig: sig})
	}
	if !c.Repeated {
		// mixed-order members (valid in both modes)
		a, r := gen.RandScalar(rng), gen.RandScalar(rng)
		A := gen.NewKeyPoint(rng, a, rng.Intn(8), -1)
		R := gen.NewKeyPoint(rng, r, rng.Intn(8), -1)
		msg := gen.MsgFor(rng, c.V)
		pool = append(pool, gen.Triple{Pub: A.Enc, Msg: msg, Sig: ref.SignWith(a, r, A.Enc, R.Enc, msg, c.V)})
		if c.Zip {
			// ZIP-215-only members: small-order key, S in the top slice too
			S := gen.RandBelow(rng, ref.L)
			if rng.Intn(2) == 0 {
				S = new(big.Int).Add(p2_252, gen.RandBelow(rng, new(big.Int).Sub(ref.L, p2_252)))
			}
			Rk := gen.NewKeyPoint(rng, S, rng.Intn(8), -1)
			pool = append(pool, gen.Triple{Pub: so[rng.Intn(14)], Msg: gen.MsgFor(rng, c.V), Sig: append(append([]byte(nil), Rk.Enc...), ref.LEBytes(S, 32)...)})
		}
	}
	n := c.N
	lead := 0
	if c.PrevBad {
		lead = 64 // a first chunk with one invalid member, which legitimately falls back
	}
	keys := make([]ed25519.PublicKey, lead+n)
	msgs := make([][]byte, lead+n)
	sigs := make([][]byte, lead+n)
	for i := range keys {
		t := pool[rng.Intn(len(pool))].Clone()
		keys[i], msgs[i], sigs[i] = t.Pub, t.Msg, t.Sig
	}
	ek := c.EKind
	if c.PrevBad {
		sigs[rng.Intn(64)][40] ^= 4
		ek = "uniform" // an invalid member is present: only uniformly random streams are in scope
	}
	var fb []int
	ed25519.VerifSetFallbackObserver(func(off, size int) { fb = append(fb, off) })
	before := ed25519.VerifFallbackCount()
	ok, valid, err := ed25519.VerifyBatch(newEntropy(ek, c.ESeed), keys, msgs, sigs, libOpts(c.V, c.Zip))
	after := ed25519.VerifFallbackCount()
	ed25519.VerifSetFallbackObserver(func(off, size int) {})
	chunks := 0
	for m := n; m >= 4; m -= 64 {
		chunks++
		if m < 64 {
			break
		}
	}
	rec.Eval("fallback-monitor", fmt.Sprintf("fallback/n=%s", sizeClass(n)), "fallback/entropy="+ek, fmt.Sprintf("fallback/chunks=%d", chunks))
	if c.PrevBad {
		rec.Class("fallback/after-a-chunk-that-fell-back", 1)
	}
	if c.Repeated {
		rec.Class("fallback/repeated-member", 1)
	}
	rec.Nontrivial([]byte(fmt.Sprint(c.N, c.Zip, c.EKind, c.ESeed, c.MSeed, c.PrevBad)))
	bad := ""
	wantFb := 0
	if c.PrevBad {
		wantFb = 1
	}
	switch {
	case err != nil:
		bad = "VerifyBatch error " + err.Error()
	case int(after-before) != wantFb:
		bad = fmt.Sprintf("%d chunk(s) fell back to per-signature verification (offsets %v) although every member of those chunks is valid; expected %d", after-before, fb, wantFb)
	case c.PrevBad && (len(fb) != 1 || fb[0] != 0):
		bad = fmt.Sprintf("fallback at offsets %v, expected only the first chunk", fb)
	case !c.PrevBad && !ok:
		bad = "all-valid batch reported invalid"
	}
	if bad == "" {
		for i := lead; i < len(valid); i++ {
			if !valid[i] {
				bad = fmt.Sprintf("valid member %d reported invalid", i)
				break
			}
		}
	}
	if bad != "" {
		rec.Violate("fallback-counter", bad, fmt.Sprintf("fallback/n=%d/zip=%v", n, c.Zip), cs)
		return
	}
	rec.Sample(map[string]interface{}{"n": n, "chunks": chunks, "zip215": c.Zip, "entropy": ek, "fallbacks": after - before, "after_fallback_chunk": c.PrevBad})
}

func sizeClass(n int) string {
	switch {
	case n < 64 && n%2 == 0:
		return "4-62even"
	case n < 64:
		return "5-63odd"
	case n == 64:
		return "64"
	}
	return ">64"
}

func replayFallback(rec *ev.Rec, c map[string]interface{}) {
	b := func(k string) bool { x, _ := c[k].(bool); return x }
	v := ref.Variant{Pure: b("pure"), Ph: b("ph"), Ctx: ev.UnHex(str(c, "ctx"))}
	judgeFallback(rec, &fbCase{N: int(num(c["n"])), Zip: b("zip215"), V: v, EKind: str(c, "entropy"), ESeed: num(c["eseed"]), MSeed: num(c["mseed"]), PrevBad: b("prevbad"), Repeated: b("repeated")})
}

func replayMSM(rec *ev.Rec, c map[string]interface{}) {
	ps, _ := c["points"].([]interface{})
	ss, _ := c["scalars"].([]interface{})
	if len(ps) == 0 || len(ps) != len(ss) {
		fmt.Println("INCONCLUSIVE record has no points/scalars")
		return
	}
	encs := make([][]byte, len(ps))
	scs := make([]*big.Int, len(ss))
	for i := range ps {
		s, _ := ps[i].(string)
		encs[i] = ev.UnHex(s)
		t, _ := ss[i].(string)
		scs[i], _ = new(big.Int).SetString(t, 16)
	}
	if simulate(scs, len(scs)) < 0 {
		fmt.Println("INCONCLUSIVE schedule exceeds the step cap")
		return
	}
	runHeap(encs, scs)
}

// ---- inside sub-checks of C04 and C09 ----

func runC04inside(cfg *Cfg, rec *ev.Rec) {
	mon.Install(rec, cfg.Config, false, false, false, true)
	rng := cfg.rng("c04in")
	rounds := cfg.n(64, 2500)
	for r := 0; r < rounds; r++ {
		for _, S := range gen.SBound(rng) {
			b := ref.LEBytes(S, 32)
			ed25519.VerifScMinimal(b)
			rec.Eval("scMinimal", "scMinimal/"+gen.SClass(S))
			rec.Class(fmt.Sprintf("scMinimal/topbyte/%02x", b[31]), 1)
			rec.Nontrivial(b)
		}
		// every word of the comparison at -1 / 0 / +1 relative to L, all top-byte values
		lb := ref.LEBytes(ref.L, 32)
		for w := 0; w < 4; w++ {
			for _, d := range []int{-1, 0, 1} {
				b := append([]byte(nil), lb...)
				v := new(big.Int).Add(ref.LEInt(b[8*w:8*w+8]), big.NewInt(int64(d)))
				if v.Sign() < 0 || v.BitLen() > 64 {
					continue
				}
				copy(b[8*w:8*w+8], ref.LEBytes(v, 8))
				for k := 8 * (w + 1); k < 32 && rng.Intn(2) == 0; k++ {
					_ = k
				}
				ed25519.VerifScMinimal(b)
				rec.Eval("scMinimal", "scMinimal/word-boundary")
				rec.Nontrivial(b)
				// lower words randomised: only the words above decide
				b2 := append([]byte(nil), b...)
				rng.Read(b2[:8*w])
				ed25519.VerifScMinimal(b2)
				rec.Eval("scMinimal", "scMinimal/word-boundary")
			}
		}
		tb := gen.RandBytes(rng, 32)
		tb[31] = byte(r)
		ed25519.VerifScMinimal(tb)
		rec.Eval("scMinimal")
		rec.Class(fmt.Sprintf("scMinimal/topbyte/%02x", tb[31]), 1)
	}
}

func runC09inside(cfg *Cfg, rec *ev.Rec) {
	mon.Install(rec, cfg.Config, false, false, false, true)
	rng := cfg.rng("c09in")
	for i, e := range ref.SmallOrderEncodings() {
		if cfg.mine(i) {
			ed25519.VerifIsSmallOrder(e)
			rec.Eval("isSmallOrder", "isSmallOrder/torsion-encoding")
			rec.Nontrivial(e)
		}
	}
	n := cfg.n(3000, 150000)
	for i := 0; i < n; i++ {
		var b []byte
		cls := ""
		switch i % 5 {
		case 0:
			kp := gen.NewKeyPoint(rng, gen.RandScalar(rng), rng.Intn(8), -1)
			b, cls = kp.Enc, fmt.Sprintf("mixed-order-%d/%s", ref.TorsOrder(kp.T), kp.EncKind)
		case 1:
			kp := gen.NewKeyPoint(rng, big.NewInt(int64(1+rng.Intn(16))), rng.Intn(8), -1)
			b, cls = kp.Enc, "tiny-multiple"
		case 2:
			b, cls = gen.Garbage32(rng)
		case 3:
			t := rng.Intn(8)
			encs := ref.Encodings(ref.Tors[t])
			b, cls = encs[rng.Intn(len(encs))], "torsion-encoding"
		default:
			b, cls = gen.RandBytes(rng, 32), "random"
		}
		ed25519.VerifIsSmallOrder(b)
		rec.Eval("isSmallOrder", "isSmallOrder/"+cls)
		rec.Nontrivial(b)
	}
}

func replayRoot(rec *ev.Rec, c map[string]interface{}) {
	s := ev.UnHex(str(c, "s"))
	switch str(c, "fn") {
	case "scMinimal":
		ed25519.VerifScMinimal(s)
	case "isSmallOrderVartime":
		ed25519.VerifIsSmallOrder(s)
	}
}
