//go:build verifmon

package main

import (
	"math/big"
	"math/rand"

	"github.com/oasisprotocol/ed25519/internal/curve25519"
	"github.com/oasisprotocol/ed25519/verifh/ev"
	"github.com/oasisprotocol/ed25519/verifh/gen"
	"github.com/oasisprotocol/ed25519/verifh/mon"
	"github.com/oasisprotocol/ed25519/verifh/ref"
)

type fe = curve25519.Bignum25519

func init() {
	workloads["C18"] = runC18
	replayers["field"] = replayField
}

func setLimb(a *fe, i int, v uint64) { mon.FSetLimb(a, i, v) }

func feFromLimbs(l []uint64) fe {
	var a fe
	for i := 0; i < mon.FieldLimbs && i < len(l); i++ {
		setLimb(&a, i, l[i])
	}
	return a
}

// feFromInt writes x (any non-negative integer below 2^255+small) in
// canonical limb form (each limb below its mask).
func feFromInt(x *big.Int) fe {
	var a fe
	t := new(big.Int).Set(x)
	for i := 0; i < mon.FieldLimbs; i++ {
		mask := new(big.Int).Sub(new(big.Int).Lsh(one, mon.FieldBits[i]), one)
		if i == mon.FieldLimbs-1 {
			setLimb(&a, i, t.Uint64())
		} else {
			setLimb(&a, i, new(big.Int).And(t, mask).Uint64())
		}
		t.Rsh(t, mon.FieldBits[i])
	}
	return a
}

// genR: level-0 "reduced" forms with boundary-heavy limbs.
func genR(rng *rand.Rand) fe {
	var a fe
	mode := rng.Intn(12)
	switch mode {
	case 0, 1, 2, 3: // special values around the modulus, exact limb form
		sp := []*big.Int{big.NewInt(0), big.NewInt(1), big.NewInt(2), big.NewInt(18), big.NewInt(19), big.NewInt(20),
			new(big.Int).Sub(ref.P, one), new(big.Int).Set(ref.P), new(big.Int).Add(ref.P, one), new(big.Int).Add(ref.P, big.NewInt(18)),
			new(big.Int).Sub(gen.P2_255, one), new(big.Int).Sub(ref.P, big.NewInt(19)), new(big.Int).Sub(ref.P, big.NewInt(2))}
		return feFromInt(sp[rng.Intn(len(sp))])
	}
	for i := 0; i < mon.FieldLimbs; i++ {
		mask := uint64(1)<<mon.FieldBits[i] - 1
		var v uint64
		switch {
		case mode == 4: // all max (+excess)
			v = mask + mon.FieldExcess(i)
		case mode == 5:
			v = mask
		case mode == 6:
			v = 0
		default:
			switch rng.Intn(8) {
			case 0:
				v = 0
			case 1:
				v = mask
			case 2:
				v = mask - uint64(rng.Intn(20))
			case 3:
				v = uint64(rng.Intn(40))
			case 4:
				v = mask + uint64(rng.Int63n(int64(mon.FieldExcess(i))+1))
			default:
				v = uint64(rng.Int63()) & mask
			}
		}
		setLimb(&a, i, v)
	}
	return a
}

func binops(a, b fe) {
	var o fe
	curve25519.Mul(&o, &a, &b)
	o = a
	curve25519.Mul(&o, &o, &b) // out aliases first operand
	o = b
	curve25519.Mul(&o, &a, &o) // out aliases second operand
	o = a
	curve25519.Mul(&o, &o, &o) // all three alias
}

func unops(rng *rand.Rand, a fe) {
	var o fe
	curve25519.Square(&o, &a)
	o = a
	curve25519.Square(&o, &o)
	curve25519.SquareTimes(&o, &a, 1+rng.Intn(5))
	if rng.Intn(40) == 0 {
		curve25519.Recip(&o, &a)
		curve25519.PowTwo252m3(&o, &a)
		o = a
		curve25519.Recip(&o, &o)
	}
}

func fieldRound(rng *rand.Rand, rec *ev.Rec) {
	a, b, c := genR(rng), genR(rng), genR(rng)
	var o fe
	curve25519.AddReduce(&o, &a, &b)
	curve25519.SubReduce(&o, &a, &b)
	curve25519.Neg(&o, &a)
	o = a
	curve25519.AddReduce(&o, &o, &o)
	o = a
	curve25519.SubReduce(&o, &b, &o)
	var out [32]byte
	curve25519.Contract(out[:], &a)
	// parsing: random, all-ones with a hole, top bit set
	rb := gen.RandBytes(rng, 32)
	switch rng.Intn(4) {
	case 0:
		for i := range rb {
			rb[i] = 0xff
		}
		rb[rng.Intn(32)] = byte(rng.Intn(256))
	case 1:
		rb[31] |= 0x80
	}
	curve25519.Expand(&o, rb)
	curve25519.Contract(out[:], &o)
	x, y := a, b
	curve25519.SwapConditional(&x, &y, 0)
	curve25519.SwapConditional(&x, &y, 1)
	curve25519.Copy(&o, &a)
	// level 1
	var s1, d1, s2, d2 fe
	curve25519.Add(&s1, &a, &b)
	curve25519.Sub(&d1, &a, &b)
	curve25519.Add(&s2, &c, &c)
	curve25519.Sub(&d2, &c, &a)
	// level 2: exactly the (level-1, R) and (R, level-1) shapes of the group law
	var e1, e2, e3, e4 fe
	curve25519.AddAfterBasic(&e1, &s1, &c)
	curve25519.AddAfterBasic(&e2, &c, &d1)
	curve25519.SubAfterBasic(&e3, &s1, &c)
	curve25519.SubAfterBasic(&e4, &c, &d1)
	forms := []fe{a, b, s1, d1, s2, d2, e1, e2, e3, e4}
	names := []string{"R", "R", "B1", "B1", "B1", "B1", "B2", "B2", "B2", "B2"}
	i, j := rng.Intn(len(forms)), rng.Intn(len(forms))
	binops(forms[i], forms[j])
	rec.Eval("field-round", "mul-forms/"+names[i]+"x"+names[j])
	k := rng.Intn(len(forms))
	unops(rng, forms[k])
	rec.Class("unary-form/"+names[k], 1)
	binops(d1, e3)
	binops(e4, d2)
	// swap and copy on every operand form the group-law code can produce
	// (AddReduce / SubReduce / Neg keep to reduced operands: that is all their
	// callers pass, and their bias constants are not meant for more - feeding
	// them unreduced forms raises alarms on correct code)
	fa, fb := forms[rng.Intn(len(forms))], forms[rng.Intn(len(forms))]
	x, y = fa, fb
	curve25519.SwapConditional(&x, &y, 1)
	curve25519.SwapConditional(&x, &y, 0)
	curve25519.Copy(&o, &fb)
	// serialisation of unreduced representations (the statement covers every
	// internal representation of a residue)
	f := forms[rng.Intn(len(forms))]
	curve25519.Contract(out[:], &f)
	// small residues in unreduced form: x - x, (x + j) - x
	var z fe
	curve25519.Sub(&z, &a, &a)
	curve25519.Contract(out[:], &z)
	sm := feFromInt(big.NewInt(int64(rng.Intn(40))))
	curve25519.Add(&z, &a, &sm)
	curve25519.Sub(&z, &z, &a)
	curve25519.Contract(out[:], &z)
	curve25519.SubAfterBasic(&z, &s1, &s1)
	curve25519.Contract(out[:], &z)
	rec.Nontrivial(out[:], rb, []byte{byte(i), byte(j), byte(k)})
}

// maxLimb is the largest limb of a representation.
func maxLimb(a *fe) uint64 {
	var m uint64
	for i := 0; i < mon.FieldLimbs; i++ {
		if v := mon.FLimb(a, i); v > m {
			m = v
		}
	}
	return m
}

// adaptiveOps: the lazily-reduced routines are specified only for the operand
// magnitudes their callers produce.  What the callers produce is *measured*
// (operand envelope of the API phase); the routines are then driven with
// boundary-heavy operands of every form (R, one-level, two-level) whose
// magnitude stays within that measured envelope.  On the pinned tree this
// selects exactly the forms listed in DESIGN.md; if a change makes the group
// law pass larger operands to a routine, the routine is driven with them.
var adaptiveOps = []string{"Add", "Sub", "AddReduce", "SubReduce", "AddAfterBasic", "SubAfterBasic", "Neg"}

func adaptiveRound(rng *rand.Rand, rec *ev.Rec) {
	a, b, c := genR(rng), genR(rng), genR(rng)
	var s1, d1, e1, e3, e4 fe
	curve25519.Add(&s1, &a, &b)
	curve25519.Sub(&d1, &a, &c)
	curve25519.AddAfterBasic(&e1, &s1, &c)
	curve25519.SubAfterBasic(&e3, &s1, &c)
	curve25519.SubAfterBasic(&e4, &c, &d1)
	forms := []fe{a, b, c, s1, d1, e1, e3, e4}
	pick := func(fn, operand string) *fe {
		lim := mon.EnvMax("api", fn, operand)
		for try := 0; try < 12; try++ {
			f := forms[rng.Intn(len(forms))]
			if maxLimb(&f) <= lim {
				return &f
			}
		}
		return nil
	}
	for _, fn := range adaptiveOps {
		x := pick(fn, "a")
		if x == nil {
			continue
		}
		var o fe
		if fn == "Neg" {
			curve25519.Neg(&o, x)
			rec.Class("adaptive/Neg", 1)
			continue
		}
		y := pick(fn, "b")
		if y == nil {
			continue
		}
		switch fn {
		case "Add":
			curve25519.Add(&o, x, y)
		case "Sub":
			curve25519.Sub(&o, x, y)
		case "AddReduce":
			curve25519.AddReduce(&o, x, y)
		case "SubReduce":
			curve25519.SubReduce(&o, x, y)
		case "AddAfterBasic":
			curve25519.AddAfterBasic(&o, x, y)
		case "SubAfterBasic":
			curve25519.SubAfterBasic(&o, x, y)
		}
		rec.Class("adaptive/"+fn, 1)
	}
}

func runC18(cfg *Cfg, rec *ev.Rec) {
	mon.Install(rec, cfg.Config, true, false, false, false)
	rng := cfg.rng("c18")
	// field events produced by real API executions first: they yield the
	// operand envelope per routine
	apiRounds(cfg, rec, cfg.n(160, 3200), "c18-api")
	n := cfg.n(40000, 1500000)
	for i := 0; i < n; i++ {
		fieldRound(rng, rec)
		adaptiveRound(rng, rec)
	}
}

func replayField(rec *ev.Rec, c map[string]interface{}) {
	fn := str(c, "fn")
	get := func(k string) *fe {
		if c[k] == nil {
			return nil
		}
		f := feFromLimbs(u64s(c[k]))
		return &f
	}
	a, b := get("operand0"), get("operand1")
	var o fe
	var out [32]byte
	switch fn {
	case "Add":
		curve25519.Add(&o, a, b)
	case "AddAfterBasic":
		curve25519.AddAfterBasic(&o, a, b)
	case "AddReduce":
		curve25519.AddReduce(&o, a, b)
	case "Sub":
		curve25519.Sub(&o, a, b)
	case "SubAfterBasic":
		curve25519.SubAfterBasic(&o, a, b)
	case "SubReduce":
		curve25519.SubReduce(&o, a, b)
	case "Mul":
		curve25519.Mul(&o, a, b)
	case "Neg":
		curve25519.Neg(&o, a)
	case "Square":
		curve25519.Square(&o, a)
	case "SquareTimes":
		curve25519.SquareTimes(&o, a, int(num(c["count"])))
	case "Recip":
		curve25519.Recip(&o, a)
	case "PowTwo252m3":
		curve25519.PowTwo252m3(&o, a)
	case "Contract":
		curve25519.Contract(out[:], a)
	case "Expand":
		curve25519.Expand(&o, ev.UnHex(str(c, "in")))
	case "SwapConditional":
		curve25519.SwapConditional(a, b, 0)
		curve25519.SwapConditional(a, b, 1)
	}
}
