//go:build verifmon

package main

import (
	"math/big"
	"math/rand"

	"github.com/oasisprotocol/ed25519/internal/modm"
	"github.com/oasisprotocol/ed25519/verifh/ev"
	"github.com/oasisprotocol/ed25519/verifh/gen"
	"github.com/oasisprotocol/ed25519/verifh/mon"
	"github.com/oasisprotocol/ed25519/verifh/ref"
)

type sc = modm.Bignum256

func init() {
	workloads["C19"] = runC19
	replayers["scalar"] = replayScalar
}

// remainder boundary set: where the conditional subtraction of L borrows
// through the all-zero limb of L, and the ends of [0, L)
func rhoSet(rng *rand.Rand) *big.Int {
	L := ref.L
	delta := new(big.Int).Sub(L, p2_252)
	cands := []*big.Int{big.NewInt(0), big.NewInt(1), big.NewInt(2),
		new(big.Int).Sub(delta, one), delta, new(big.Int).Add(delta, one),
		new(big.Int).Sub(new(big.Int).Sub(p2_252, delta), one), new(big.Int).Sub(p2_252, delta), new(big.Int).Sub(p2_252, one), p2_252,
		new(big.Int).Sub(L, big.NewInt(2)), new(big.Int).Sub(L, one)}
	if rng.Intn(4) == 0 {
		// inside the window [2^252 - delta, 2^252) and the top slice [2^252, L)
		if rng.Intn(2) == 0 {
			return new(big.Int).Add(new(big.Int).Sub(p2_252, delta), gen.RandBelow(rng, delta))
		}
		return new(big.Int).Add(p2_252, gen.RandBelow(rng, delta))
	}
	if rng.Intn(3) == 0 {
		return gen.RandBelow(rng, L)
	}
	return new(big.Int).Set(cands[rng.Intn(len(cands))])
}

// genInt: hostile integers below 2^bits for the reductions.
func genInt(rng *rand.Rand, bits uint) *big.Int {
	max := new(big.Int).Lsh(one, bits)
	L := ref.L
	var x *big.Int
	switch rng.Intn(10) {
	case 0, 1, 2: // k*L + rho for all quotient magnitudes
		qmax := new(big.Int).Div(max, L)
		var k *big.Int
		switch rng.Intn(5) {
		case 0:
			k = big.NewInt(int64(rng.Intn(17)))
		case 1:
			k = new(big.Int).Lsh(one, uint(rng.Intn(qmax.BitLen()+1)))
			k.Add(k, big.NewInt(int64(rng.Intn(3)-1)))
		case 2:
			k = new(big.Int).Sub(qmax, big.NewInt(int64(rng.Intn(3))))
		default:
			k = gen.RandBelow(rng, new(big.Int).Add(qmax, one))
		}
		if k.Sign() < 0 {
			k.SetInt64(0)
		}
		x = new(big.Int).Mul(k, L)
		x.Add(x, rhoSet(rng))
		x.Add(x, big.NewInt(int64(rng.Intn(5)-2)))
	case 3: // 2^k + delta
		x = new(big.Int).Lsh(one, uint(rng.Intn(int(bits)+1)))
		x.Add(x, big.NewInt(int64(rng.Intn(5)-2)))
	case 4: // all ones with a hole
		x = new(big.Int).Sub(max, one)
		x.Sub(x, new(big.Int).Lsh(big.NewInt(int64(rng.Intn(256))), uint(rng.Intn(int(bits)))))
	case 5: // limb-boundary pattern
		x = new(big.Int)
		for off := uint(0); off < bits; off += uint(modm.BitsPerLimb) {
			m := new(big.Int).Sub(new(big.Int).Lsh(one, uint(modm.BitsPerLimb)), one)
			var limb *big.Int
			switch rng.Intn(4) {
			case 0:
				limb = big.NewInt(0)
			case 1:
				limb = m
			case 2:
				limb = new(big.Int).Sub(m, big.NewInt(int64(rng.Intn(3))))
			default:
				limb = gen.RandBelow(rng, m)
			}
			x.Add(x, new(big.Int).Lsh(limb, off))
		}
	case 6:
		x = big.NewInt(int64(rng.Intn(3)))
	default:
		x = gen.RandBelow(rng, max)
	}
	if x.Sign() < 0 {
		x.Neg(x)
	}
	return x.Mod(x, max)
}

// reduced operand for Add/Mul from the boundary set
func genReduced(rng *rand.Rand) sc {
	var v *big.Int
	switch rng.Intn(4) {
	case 0:
		v = rhoSet(rng)
	case 1:
		v = new(big.Int).Sub(new(big.Int).Lsh(one, 128), big.NewInt(int64(rng.Intn(3))))
	case 2:
		v = gen.RandBelow(rng, ref.L)
	default:
		v = new(big.Int).Mod(genInt(rng, 256), ref.L)
	}
	v.Mod(v, ref.L)
	return mon.SSet(v)
}

// w4Target builds a value below 2^255 whose signed radix-16 digit at
// position pos equals d (other nibbles carry-free).
func w4Target(rng *rand.Rand, pos, d int) *big.Int {
	nib := make([]int, 64)
	for i := range nib {
		nib[i] = rng.Intn(7)
	}
	nib[63] = rng.Intn(7)
	switch {
	case pos == 63 && d == 8:
		nib[63] = 7
		nib[62] = 8 + rng.Intn(8)
	case d >= 0:
		nib[pos] = d
	default:
		nib[pos] = 16 + d
	}
	x := new(big.Int)
	for i := 63; i >= 0; i-- {
		x.Lsh(x, 4)
		x.Add(x, big.NewInt(int64(nib[i])))
	}
	return x
}

func scalarRound(rng *rand.Rand, rec *ev.Rec) {
	var a, b, c, s, m sc
	x := genInt(rng, 512)
	modm.Expand(&a, ref.LEBytes(x, 64))
	y := genInt(rng, 256)
	modm.Expand(&b, ref.LEBytes(y, 32))
	z := genInt(rng, 128)
	modm.Expand(&c, ref.LEBytes(z, 16))
	var out [32]byte
	modm.Contract(out[:], &a)
	modm.Contract(out[:], &c)
	modm.Add(&s, &a, &b)
	modm.Mul(&m, &a, &b)
	modm.Mul(&m, &a, &c)
	m = a
	modm.Mul(&m, &m, &b) // aliasing as used by callers: Mul(&S,&S,&a), Add(&S,&S,&r)
	s = m
	modm.Add(&s, &s, &a)
	// every aliasing pattern of output and operands
	{
		x, y := a, b
		modm.Add(&y, &x, &y) // r == y
		x, y = a, b
		modm.Mul(&y, &x, &y)
		x = a
		modm.Add(&x, &x, &x) // all three
		x = b
		modm.Mul(&x, &x, &x)
	}
	// boundary pairs
	p, q := genReduced(rng), genReduced(rng)
	modm.Add(&s, &p, &q)
	modm.Mul(&m, &p, &q)
	modm.Mul(&m, &p, &p)
	modm.Contract(out[:], &m)
	// recodings
	r := genInt(rng, 255)
	var raw sc
	modm.ExpandRaw(&raw, ref.LEBytes(r, 32))
	var w4 [64]int8
	modm.ContractWindow4(&w4, &raw)
	modm.ContractWindow4(&w4, &a)
	var sw [256]int8
	modm.ContractSlidingWindow(&sw, &a, 5)
	modm.ContractSlidingWindow(&sw, &b, 7)
	modm.ContractSlidingWindow(&sw, &p, 5)
	modm.ContractSlidingWindow(&sw, &p, 7)
	// vartime helpers on the limbs they are told to look at
	ls := rng.Intn(modm.LimbSize)
	u, v := mon.SSet(genInt(rng, uint((ls+1)*modm.BitsPerLimb))), mon.SSet(genInt(rng, uint((ls+1)*modm.BitsPerLimb)))
	if ls == modm.LimbSize-1 {
		u, v = genReduced(rng), genReduced(rng)
	}
	if rng.Intn(4) == 0 {
		v = u
		if rng.Intn(2) == 0 {
			v[rng.Intn(ls+1)] ^= 1
		}
	}
	if ls >= 1 && rng.Intn(3) == 0 {
		// equal limbs with a borrow arriving from below: v = u except that a
		// low limb of v is larger and a higher limb of u is larger by one
		v = u
		lo := rng.Intn(ls)
		hi := lo + 1 + rng.Intn(ls-lo)
		top := modm.Element(1)<<uint(modm.BitsPerLimb) - 1
		if u[hi] == 0 {
			u[hi] = 1 + modm.Element(rng.Intn(5))
			v[hi] = u[hi] - 1
		} else {
			v[hi] = u[hi] - 1
		}
		if v[lo] == top {
			u[lo] = top - 1 - modm.Element(rng.Intn(3))
		} else {
			u[lo] = v[lo]
			v[lo] = v[lo] + 1 + modm.Element(rng.Intn(2))
			if v[lo] > top {
				v[lo] = top
			}
		}
		if rng.Intn(2) == 0 {
			for k := lo + 1; k < hi; k++ { // all limbs in between equal and extreme
				u[k], v[k] = 0, 0
				if rng.Intn(2) == 0 {
					u[k], v[k] = top, top
				}
			}
		}
	}
	modm.LessThanVartime(&u, &v, ls)
	modm.LessThanOrEqualVartime(&u, &v, ls)
	if mon.SValN(&u, ls).Cmp(mon.SValN(&v, ls)) < 0 {
		u, v = v, u
	}
	var d sc
	modm.SubVartime(&d, &u, &v, ls)
	d = u
	modm.SubVartime(&d, &d, &v, ls)
	modm.IsZeroVartime(&d)
	modm.IsOneVartime(&d)
	modm.IsAtMost128bitsVartime(&u)
	for _, t := range []*big.Int{big.NewInt(0), big.NewInt(1), new(big.Int).Lsh(one, 128), new(big.Int).Sub(new(big.Int).Lsh(one, 128), one), new(big.Int).Lsh(one, uint(rng.Intn(253)))} {
		tt := mon.SSet(t)
		modm.IsZeroVartime(&tt)
		modm.IsOneVartime(&tt)
		modm.IsAtMost128bitsVartime(&tt)
	}
	rec.Eval("scalar-round")
	rec.Nontrivial(ref.LEBytes(x, 64), ref.LEBytes(y, 32))
}

func runC19(cfg *Cfg, rec *ev.Rec) {
	mon.Install(rec, cfg.Config, false, true, false, false)
	rng := cfg.rng("c19")
	// every attainable (position, digit) pair of the signed radix-16 recoding
	item := 0
	for pos := 0; pos < 64; pos++ {
		for d := -8; d <= 8; d++ {
			if (pos < 63 && d == 8) || (pos == 63 && d < 0) {
				continue
			}
			if cfg.mine(item) {
				var raw sc
				modm.ExpandRaw(&raw, ref.LEBytes(w4Target(rng, pos, d), 32))
				var w4 [64]int8
				modm.ContractWindow4(&w4, &raw)
				if int(w4[pos]) == d {
					rec.Class("w4-targets-hit", 1)
				}
				rec.Eval("w4-target")
			}
			item++
		}
	}
	n := cfg.n(30000, 1200000)
	for i := 0; i < n; i++ {
		scalarRound(rng, rec)
	}
	apiRounds(cfg, rec, cfg.n(160, 3200), "c19-api")
}

func replayScalar(rec *ev.Rec, c map[string]interface{}) {
	fn := str(c, "fn")
	get := func(k string) *sc {
		var s sc
		l := u64s(c[k])
		for i := 0; i < modm.LimbSize && i < len(l); i++ {
			s[i] = modm.Element(l[i])
		}
		return &s
	}
	var o sc
	var out [32]byte
	switch fn {
	case "Expand":
		modm.Expand(&o, ev.UnHex(str(c, "in")))
	case "ExpandRaw":
		modm.ExpandRaw(&o, ev.UnHex(str(c, "in")))
	case "Contract":
		modm.Contract(out[:], get("in"))
	case "Add":
		modm.Add(&o, get("x"), get("y"))
	case "Mul":
		modm.Mul(&o, get("x"), get("y"))
	case "ContractWindow4":
		var w4 [64]int8
		modm.ContractWindow4(&w4, get("in"))
	case "ContractSlidingWindow":
		var sw [256]int8
		modm.ContractSlidingWindow(&sw, get("in"), uint(num(c["window"])))
	case "SubVartime":
		modm.SubVartime(&o, get("a"), get("b"), int(num(c["limbSize"])))
	case "LessThanVartime":
		modm.LessThanVartime(get("a"), get("b"), int(num(c["limbSize"])))
	case "LessThanOrEqualVartime":
		modm.LessThanOrEqualVartime(get("a"), get("b"), int(num(c["limbSize"])))
	case "IsZeroVartime":
		modm.IsZeroVartime(get("a"))
	case "IsOneVartime":
		modm.IsOneVartime(get("a"))
	case "IsAtMost128bitsVartime":
		modm.IsAtMost128bitsVartime(get("a"))
	}
}
