//go:build verifmon

// layers: drives the internal layers of the *monitored build* (properties
// C16-C19 and the inside sub-checks of C04, C09, C17).  Every call of an
// instrumented field / scalar / group routine - made directly here or
// indirectly by API executions - is judged by the monitors of package mon.
package main

import (
	"bytes"
	"encoding/json"
	"flag"
	"fmt"
	"hash/fnv"
	"math/big"
	"math/rand"
	"os"
	"strconv"

	"github.com/oasisprotocol/ed25519/verifh/ev"
	"github.com/oasisprotocol/ed25519/verifh/mon"
	"github.com/oasisprotocol/ed25519/verifh/ref"
)

type Cfg struct {
	Prop    string
	Tier    string
	Seed    int64
	Shard   int
	NShards int
	Config  string
	Scale   float64
}

func (c *Cfg) thorough() bool { return c.Tier == "thorough" }

func (c *Cfg) n(q, t int) int {
	tot := q
	if c.thorough() {
		tot = t
	}
	tot = int(float64(tot) * c.Scale)
	k := tot / c.NShards
	if c.Shard < tot%c.NShards {
		k++
	}
	return k
}

func (c *Cfg) mine(i int) bool { return i%c.NShards == c.Shard }

func (c *Cfg) rng(stream string) *rand.Rand {
	h := fnv.New64a()
	fmt.Fprintf(h, "%d/%s/%d/%s", c.Seed, c.Prop, c.Shard, stream)
	return rand.New(rand.NewSource(int64(h.Sum64())))
}

var workloads = map[string]func(*Cfg, *ev.Rec){}
var replayers = map[string]func(*ev.Rec, map[string]interface{}){}

func main() {
	var cfg Cfg
	var out, replay string
	flag.StringVar(&cfg.Prop, "prop", "", "property id")
	flag.StringVar(&cfg.Tier, "tier", "quick", "quick|thorough")
	flag.Int64Var(&cfg.Seed, "seed", 1, "VERIF_SEED")
	flag.IntVar(&cfg.Shard, "shard", 0, "shard index")
	flag.IntVar(&cfg.NShards, "nshards", 1, "number of shards")
	flag.StringVar(&cfg.Config, "config", "K0", "build configuration id")
	flag.Float64Var(&cfg.Scale, "scale", 1, "workload scale")
	flag.StringVar(&out, "out", "", "output record")
	flag.StringVar(&replay, "replay", "", "replay a violation record")
	flag.Parse()
	if bad := ref.SelfCheck(); len(bad) > 0 {
		fmt.Println("INCONCLUSIVE oracle self-validation failed", bad)
		os.Exit(3)
	}
	if replay != "" {
		b, err := os.ReadFile(replay)
		if err != nil {
			fmt.Println(err)
			os.Exit(3)
		}
		var v ev.Violation
		dec := json.NewDecoder(bytes.NewReader(b))
		dec.UseNumber()
		if err := dec.Decode(&v); err != nil {
			fmt.Println(err)
			os.Exit(3)
		}
		rec := ev.New(v.Property, cfg.Config, "replay", 0)
		mon.Install(rec, cfg.Config, true, true, true, true)
		key := str(v.Case, "layer") + "/" + str(v.Case, "fn")
		fn := replayers[key]
		if fn == nil {
			fn = replayers[str(v.Case, "layer")]
		}
		if fn == nil {
			fmt.Println("INCONCLUSIVE no replayer for", key)
			os.Exit(3)
		}
		fn(rec, v.Case)
		for _, nv := range rec.Violations {
			fmt.Printf("REPLAY-VIOLATION property=%s sub=%s %s\n", v.Property, nv.Sub, nv.What)
		}
		if rec.NViolations > 0 {
			os.Exit(1)
		}
		fmt.Println("REPLAY-OK: the recorded case does not violate on this tree")
		return
	}
	fn := workloads[cfg.Prop]
	if fn == nil {
		fmt.Println("unknown property", cfg.Prop)
		os.Exit(3)
	}
	rec := ev.New(cfg.Prop, cfg.Config, fmt.Sprintf("%d/%d", cfg.Shard, cfg.NShards), cfg.Seed)
	if out != "" {
		rec.SetProgress(out + ".about")
	}
	rec.SetExtra("layout", mon.Layout)
	fn(&cfg, rec)
	mon.Flush()
	if out != "" {
		if err := rec.Write(out); err != nil {
			fmt.Println(err)
			os.Exit(3)
		}
	}
	fmt.Printf("shard %d/%d %s: evaluations=%d violations=%d\n", cfg.Shard, cfg.NShards, cfg.Prop, rec.Evaluations, rec.NViolations)
}

func str(m map[string]interface{}, k string) string { s, _ := m[k].(string); return s }

func u64s(x interface{}) []uint64 {
	arr, _ := x.([]interface{})
	out := make([]uint64, len(arr))
	for i, v := range arr {
		switch n := v.(type) {
		case json.Number:
			u, _ := strconv.ParseUint(n.String(), 10, 64)
			out[i] = u
		case float64:
			out[i] = uint64(n)
		}
	}
	return out
}

func num(x interface{}) int64 {
	switch n := x.(type) {
	case json.Number:
		i, _ := n.Int64()
		return i
	case float64:
		return int64(n)
	}
	return 0
}

var (
	one    = big.NewInt(1)
	p2_252 = new(big.Int).Lsh(one, 252)
)
