//go:build verifshim

package main

import (
	"github.com/oasisprotocol/ed25519"
	"github.com/oasisprotocol/ed25519/extra/x25519"
	"github.com/oasisprotocol/ed25519/internal/curve25519"
	"github.com/oasisprotocol/ed25519/internal/ge25519"
	"github.com/oasisprotocol/ed25519/internal/modm"
)

// with the generated in-package shims every package-level variable of the
// library packages is rendered (one "pkg.name=value" line each)
func extraState() string {
	return ed25519.VerifStateDump() + ge25519.VerifStateDump() + curve25519.VerifStateDump() + modm.VerifStateDump() + x25519.VerifStateDump()
}
