//go:build !verifshim

package main

// without the generated in-package state shims only exported package-level
// state is monitored
func extraState() string { return "" }
