// conc: concurrency / history monitors for property C15.
//
//	conc -genpool -groups N -seed S -out pool.jsonl
//	conc -pool pool.jsonl -solo solo.txt -mode seq|conc ... -out rec.json
//
// Every call of the pool has a "solitary" result obtained by executing it
// alone in a fresh process (solo.txt, produced by the driver).  Here the
// calls run in shuffled sequential orders (seq) or concurrently from G
// goroutines on shared read-only inputs (conc, normally a -race build); every
// result must equal the solitary one.
package main

import (
	"bufio"
	"encoding/json"
	"flag"
	"fmt"
	"hash/fnv"
	"math/rand"
	"os"
	"runtime"
	"sort"
	"strings"
	"sync"
	"sync/atomic"

	"github.com/oasisprotocol/ed25519/extra/x25519"
	"github.com/oasisprotocol/ed25519/internal/ge25519"
	"github.com/oasisprotocol/ed25519/verifh/calls"
	"github.com/oasisprotocol/ed25519/verifh/ev"
	"github.com/oasisprotocol/ed25519/verifh/ref"
)

type state struct {
	table uint64
	base  ge25519.Ge25519
	xbase string
	xptr  *byte
	xlen  int
	xcap  int
	extra string
}

func snapshot() state {
	h := fnv.New64a()
	for i := range ge25519.NielsBaseMultiples {
		h.Write(ge25519.NielsBaseMultiples[i][:])
	}
	s := state{table: h.Sum64(), base: ge25519.Basepoint, xbase: string(x25519.Basepoint), xlen: len(x25519.Basepoint), xcap: cap(x25519.Basepoint)}
	if len(x25519.Basepoint) > 0 {
		s.xptr = &x25519.Basepoint[0]
	}
	s.extra = extraState()
	return s
}

func main() {
	var genpool bool
	var groups, G, ops, procs, shard int
	var seed int64
	var pool, solo, mode, out, config string
	flag.BoolVar(&genpool, "genpool", false, "generate the call pool")
	flag.IntVar(&groups, "groups", 6, "pool groups")
	flag.Int64Var(&seed, "seed", 1, "seed")
	flag.StringVar(&pool, "pool", "", "pool file")
	flag.StringVar(&solo, "solo", "", "solitary results")
	flag.StringVar(&mode, "mode", "conc", "seq|conc")
	flag.IntVar(&G, "G", 16, "goroutines")
	flag.IntVar(&ops, "ops", 2000, "operations")
	flag.IntVar(&procs, "procs", 0, "GOMAXPROCS")
	flag.IntVar(&shard, "shard", 0, "shard id (seeds the schedule)")
	flag.StringVar(&out, "out", "", "record")
	flag.StringVar(&config, "config", "K0", "config id")
	flag.Parse()

	if genpool {
		if bad := ref.SelfCheck(); len(bad) > 0 {
			fmt.Println("INCONCLUSIVE oracle self-validation failed", bad)
			os.Exit(3)
		}
		f, err := os.Create(out)
		if err != nil {
			fmt.Println(err)
			os.Exit(3)
		}
		w := bufio.NewWriter(f)
		n := calls.GenerateHistoryPool(w, seed, groups)
		w.Flush()
		f.Close()
		fmt.Println("pool of", n, "calls")
		return
	}
	if procs > 0 {
		runtime.GOMAXPROCS(procs)
	}
	cs, raw := loadPool(pool)
	want := loadSolo(solo, len(cs))
	rec := ev.New("C15", config, fmt.Sprintf("%s/%d", mode, shard), seed)
	before := snapshot()
	rng := rand.New(rand.NewSource(seed*1000003 + int64(shard)*7919 + int64(len(mode))))

	check := func(i int, got string, how string, prev int) {
		if got != want[i] {
			rec.Violate("history-"+how, fmt.Sprintf("%s call #%d (%s/%s) returned %.80s, alone in a fresh process it returns %.80s", how, i, cs[i].Op, cs[i].Class, got, want[i]),
				"history/"+how+"/"+cs[i].Op, map[string]interface{}{"op": "history", "call": json.RawMessage(raw[i]), "mode": how, "prev": prev, "solitary": want[i], "observed": got})
		}
	}

	switch mode {
	case "seq":
		run := func(i, prev int, order string) {
			got := calls.Execute(&cs[i])
			rec.Eval("seq/"+order, "seq-op/"+cs[i].Op)
			if prev >= 0 && prev != i {
				rec.Nontrivial([]byte(fmt.Sprintf("seq/%d>%d", prev, i)))
			}
			check(i, got, "sequential", prev)
		}
		n := len(cs)
		prev := -1
		for i := 0; i < n; i++ { // forward
			run(i, prev, "forward")
			prev = i
		}
		for i := n - 1; i >= 0; i-- { // reverse
			run(i, prev, "reverse")
			prev = i
		}
		for i := 0; i+1 < n; i++ { // adjacent swaps: b then a, a then b again
			run(i+1, prev, "swap")
			run(i, i+1, "swap")
			run(i+1, i, "swap")
			prev = i + 1
		}
		perms := ops / n
		if perms < 1 {
			perms = 1
		}
		for p := 0; p < perms; p++ {
			for _, i := range rng.Perm(n) {
				run(i, prev, "shuffle")
				prev = i
			}
		}
		// one caller-owned *Options object reused across consecutive calls of a
		// "ctxreuse" pair, its Context changed in between (same length)
		for i := 0; i+1 < n; i++ {
			if !strings.HasPrefix(cs[i].Class, "ctxreuse/") || cs[i].Class != cs[i+1].Class || cs[i].Op != cs[i+1].Op {
				continue
			}
			for _, ord := range [][2]int{{i, i + 1}, {i + 1, i}} {
				o := calls.OptionsOf(&cs[ord[0]])
				got0 := calls.ExecuteWithOptions(&cs[ord[0]], &o)
				second := calls.OptionsOf(&cs[ord[1]])
				o.Context, o.Hash, o.ZIP215Verify = second.Context, second.Hash, second.ZIP215Verify
				got1 := calls.ExecuteWithOptions(&cs[ord[1]], &o)
				rec.Eval("seq/options-reuse")
				rec.Nontrivial([]byte(fmt.Sprintf("optreuse/%d>%d", ord[0], ord[1])))
				check(ord[0], got0, "sequential", -1)
				check(ord[1], got1, "sequential(reused *Options, Context changed)", ord[0])
				if o.Context != second.Context {
					rec.Violate("state", "library modified the caller's Options", "state/options", map[string]interface{}{"op": "none"})
				}
			}
		}
		// a call repeated back to back (first use vs warmed state)
		for i := 0; i < n; i++ {
			run(i, prev, "repeat")
			run(i, i, "repeat")
			prev = i
		}
	case "conc":
		type span struct {
			idx        int
			start, end int64
		}
		var ticket int64
		spans := make([][]span, G)
		var wg sync.WaitGroup
		per := ops / G
		if per < 1 {
			per = 1
		}
		for g := 0; g < G; g++ {
			wg.Add(1)
			go func(g int) {
				defer wg.Done()
				r := rand.New(rand.NewSource(seed*31 + int64(shard)*1009 + int64(g)))
				last := r.Intn(len(cs))
				for k := 0; k < per; k++ {
					i := r.Intn(len(cs))
					switch r.Intn(4) {
					case 0: // a neighbour of the previous call (related calls are adjacent in the pool)
						i = (last + 1 + r.Intn(3)) % len(cs)
					case 1: // the same call as somebody else is likely running: a small hot set
						i = (int(atomic.LoadInt64(&ticket)) / 8) % len(cs)
					}
					if r.Intn(3) == 0 {
						runtime.Gosched()
					}
					st := atomic.AddInt64(&ticket, 1)
					got := calls.Execute(&cs[i])
					en := atomic.AddInt64(&ticket, 1)
					spans[g] = append(spans[g], span{i, st, en})
					rec.Eval("conc-op/" + cs[i].Op)
					check(i, got, "concurrent", -1)
					last = i
				}
			}(g)
		}
		wg.Wait()
		// interleaving evidence from the tickets
		var all []span
		for _, s := range spans {
			all = append(all, s...)
		}
		sort.Slice(all, func(a, b int) bool { return all[a].start < all[b].start })
		var active []span
		maxc := 0
		kinds := map[string]int{}
		for _, s := range all {
			k := 0
			for _, a := range active {
				if a.end > s.start {
					active[k] = a
					k++
				}
			}
			active = active[:k]
			for _, a := range active {
				ka, kb := cs[a.idx].Op, cs[s.idx].Op
				if ka > kb {
					ka, kb = kb, ka
				}
				kinds[ka+"|"+kb]++
				if a.idx != s.idx {
					rec.Nontrivial([]byte(fmt.Sprintf("conc/%d|%d", a.idx, s.idx)))
				} else {
					rec.Class("overlap-same-call", 1)
				}
			}
			active = append(active, s)
			if len(active) > maxc {
				maxc = len(active)
			}
		}
		for k, v := range kinds {
			rec.Class("overlap/"+k, int64(v))
		}
		rec.Class("max/concurrency", int64(maxc))
		rec.Class("distinct-overlapping-kind-pairs", int64(len(kinds)))
		rec.SetExtra("gomaxprocs", runtime.GOMAXPROCS(0))
		rec.SetExtra("goroutines", G)
	}
	after := snapshot()
	if after != before {
		what := "package-level state changed during the workload:"
		if after.table != before.table {
			what += " base-point table"
		}
		if after.base != before.base {
			what += " ge25519.Basepoint"
		}
		if after.xbase != before.xbase || after.xptr != before.xptr || after.xlen != before.xlen || after.xcap != before.xcap {
			what += " x25519.Basepoint"
		}
		bad := after.table != before.table || after.base != before.base || after.xbase != before.xbase || after.xptr != before.xptr || after.xlen != before.xlen || after.xcap != before.xcap
		if after.extra != before.extra {
			names := diffExtra(before.extra, after.extra)
			var known, unknown []string
			for _, n := range strings.Split(names, ",") {
				if pinnedVars[n] {
					known = append(known, n)
				} else {
					unknown = append(unknown, n)
				}
			}
			if len(known) > 0 {
				bad = true
				what += " package-level variables " + strings.Join(known, ",")
			}
			if len(unknown) > 0 {
				// a variable that does not exist on the pinned tree (e.g. a
				// cache): its change is not by itself a violation, the
				// history monitor judges whether results depend on it
				rec.Inconc("package-level variables added since the pinned tree changed during the workload: " + strings.Join(unknown, ","))
				rec.Class("state/new-variable-changed", 1)
			}
		}
		if bad {
			rec.Violate("state", what, "state", map[string]interface{}{"op": "none"})
		}
	}
	rec.Eval("state-snapshot")
	rec.Sample(map[string]interface{}{"mode": mode, "pool": len(cs), "classes": poolClasses(cs)})
	if out != "" {
		rec.Write(out)
	}
	fmt.Printf("%s shard %d: evaluations=%d violations=%d\n", mode, shard, rec.Evaluations, rec.NViolations)
}

// package-level variables of the pinned tree: constant tables, test
// switches and the exported base point.  None may change while API calls run.
var pinnedVars = map[string]bool{
	"curve25519.maxBignum":            true,
	"curve25519.maxBignum2SquaredRaw": true,
	"curve25519.maxBignum3SquaredRaw": true,
	"curve25519.maxBignumRaw":         true,
	"curve25519.maxBignumSquaredRaw":  true,
	"ed25519.errArgCounts":            true,
	"ed25519.order":                   true,
	"ed25519.testBatchSaveY":          true,
	"ed25519.testBatchY":              true,
	"ge25519.Basepoint":               true,
	"ge25519.NielsBaseMultiples":      true,
	"ge25519.ec2d":                    true,
	"ge25519.ecd":                     true,
	"ge25519.nielsSlidingMultiples":   true,
	"ge25519.sqrtNeg1":                true,
	"ge25519.unalignedOk":             true,
	"x25519.Basepoint":                true,
	"x25519.basePoint":                true,
}

func poolClasses(cs []calls.Call) map[string]int {
	m := map[string]int{}
	for _, c := range cs {
		m[c.Class]++
	}
	return m
}

func diffExtra(a, b string) string {
	la, lb := strings.Split(a, "\n"), strings.Split(b, "\n")
	var out []string
	for i := range la {
		if i < len(lb) && la[i] != lb[i] {
			n := la[i]
			if k := strings.Index(n, "="); k > 0 {
				n = n[:k]
			}
			out = append(out, n)
		}
	}
	return strings.Join(out, ",")
}

func loadPool(path string) ([]calls.Call, []string) {
	f, err := os.Open(path)
	if err != nil {
		fmt.Println(err)
		os.Exit(3)
	}
	defer f.Close()
	sc := bufio.NewScanner(f)
	sc.Buffer(make([]byte, 1<<20), 1<<26)
	var cs []calls.Call
	var raw []string
	for sc.Scan() {
		var c calls.Call
		if err := json.Unmarshal(sc.Bytes(), &c); err != nil {
			fmt.Println(err)
			os.Exit(3)
		}
		c.Prepare()
		cs = append(cs, c)
		raw = append(raw, sc.Text())
	}
	return cs, raw
}

func loadSolo(path string, n int) []string {
	f, err := os.Open(path)
	if err != nil {
		fmt.Println(err)
		os.Exit(3)
	}
	defer f.Close()
	out := make([]string, n)
	seen := 0
	sc := bufio.NewScanner(f)
	sc.Buffer(make([]byte, 1<<20), 1<<26)
	for sc.Scan() {
		var i int
		var op, res string
		if _, err := fmt.Sscanf(sc.Text(), "%d %s %s", &i, &op, &res); err == nil && i < n {
			out[i] = res
			seen++
		}
	}
	if seen != n {
		fmt.Printf("INCONCLUSIVE solitary results incomplete: %d of %d\n", seen, n)
		os.Exit(3)
	}
	return out
}
