package main

import (
	"fmt"
	"os"

	"github.com/oasisprotocol/ed25519/verifh/ref"
)

func main() {
	bad := ref.SelfCheck()
	if len(bad) > 0 {
		fmt.Println("oracle self-validation FAILED:", bad)
		os.Exit(1)
	}
	fmt.Println("oracle self-validation ok")
}
