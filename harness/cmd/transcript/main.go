// transcript: deterministic API transcript for property C08.
//
//	transcript -gen -seed N -tier T -out calls.jsonl     build the call list with the big-int model
//	transcript -exec calls.jsonl -out transcript.txt     execute it against this build configuration
//
// The same call list is executed by one binary per build configuration;
// transcripts must be byte-identical.
package main

import (
	"bufio"
	"crypto"
	"crypto/sha512"
	"encoding/hex"
	"encoding/json"
	"flag"
	"fmt"
	"math/big"
	"math/rand"
	"os"

	"github.com/oasisprotocol/ed25519"
	"github.com/oasisprotocol/ed25519/extra/x25519"
	"github.com/oasisprotocol/ed25519/verifh/gen"
	"github.com/oasisprotocol/ed25519/verifh/ref"
)

type Call struct {
	Op    string   `json:"op"`
	Class string   `json:"class"`
	A     string   `json:"a,omitempty"` // seed / key / scalar
	B     string   `json:"b,omitempty"` // message / point
	C     string   `json:"c,omitempty"` // signature
	Hash  int      `json:"hash,omitempty"`
	Ctx   string   `json:"ctx,omitempty"`
	Zip   bool     `json:"zip,omitempty"`
	Keys  []string `json:"keys,omitempty"`
	Msgs  []string `json:"msgs,omitempty"`
	Sigs  []string `json:"sigs,omitempty"`
	ESeed int64    `json:"eseed,omitempty"`
}

func hx(b []byte) string { return hex.EncodeToString(b) }
func uh(s string) []byte {
	b, err := hex.DecodeString(s)
	if err != nil {
		panic(err)
	}
	return b
}

func main() {
	var doGen bool
	var execFile, out, tier string
	var seed int64
	var single int
	flag.BoolVar(&doGen, "gen", false, "generate call list")
	flag.StringVar(&execFile, "exec", "", "execute call list")
	flag.StringVar(&out, "out", "", "output file")
	flag.StringVar(&tier, "tier", "quick", "tier")
	flag.Int64Var(&seed, "seed", 1, "seed")
	flag.IntVar(&single, "only", -1, "execute only this call index (replay)")
	flag.Parse()
	f, err := os.Create(out)
	if err != nil {
		fmt.Println(err)
		os.Exit(3)
	}
	w := bufio.NewWriterSize(f, 1<<20)
	defer func() { w.Flush(); f.Close() }()
	if doGen {
		if bad := ref.SelfCheck(); len(bad) > 0 {
			fmt.Println("INCONCLUSIVE oracle self-validation failed", bad)
			os.Exit(3)
		}
		generate(w, seed, tier)
		return
	}
	in, err := os.Open(execFile)
	if err != nil {
		fmt.Println(err)
		os.Exit(3)
	}
	sc := bufio.NewScanner(in)
	sc.Buffer(make([]byte, 1<<20), 1<<26)
	idx := 0
	for sc.Scan() {
		if single >= 0 && idx != single {
			idx++
			continue
		}
		var c Call
		if err := json.Unmarshal(sc.Bytes(), &c); err != nil {
			fmt.Println(err)
			os.Exit(3)
		}
		fmt.Fprintf(w, "%d %s %s\n", idx, c.Op, execute(&c))
		idx++
	}
}

func opts(c *Call) *ed25519.Options {
	return &ed25519.Options{Hash: crypto.Hash(c.Hash), Context: string(uh(c.Ctx)), ZIP215Verify: c.Zip}
}

func execute(c *Call) (res string) {
	defer func() {
		if r := recover(); r != nil {
			res = "panic"
		}
	}()
	switch c.Op {
	case "keygen":
		k := ed25519.NewKeyFromSeed(uh(c.A))
		return hx(k)
	case "sign":
		k := ed25519.NewKeyFromSeed(uh(c.A))
		if c.Hash == 0 && c.Ctx == "" {
			return hx(ed25519.Sign(k, uh(c.B)))
		}
		s, err := k.Sign(nil, uh(c.B), opts(c))
		if err != nil {
			return "err"
		}
		return hx(s)
	case "verify":
		return fmt.Sprint(ed25519.VerifyWithOptions(uh(c.A), uh(c.B), uh(c.C), opts(c)))
	case "batch":
		keys := make([]ed25519.PublicKey, len(c.Keys))
		msgs := make([][]byte, len(c.Msgs))
		sigs := make([][]byte, len(c.Sigs))
		for i := range keys {
			keys[i] = uh(c.Keys[i])
		}
		for i := range msgs {
			msgs[i] = uh(c.Msgs[i])
		}
		for i := range sigs {
			sigs[i] = uh(c.Sigs[i])
		}
		ok, valid, err := ed25519.VerifyBatch(rand.New(rand.NewSource(c.ESeed)), keys, msgs, sigs, opts(c))
		s := fmt.Sprintf("%v/%v/", ok, err != nil)
		for _, v := range valid {
			if v {
				s += "1"
			} else {
				s += "0"
			}
		}
		return s
	case "x25519":
		o, err := x25519.X25519(uh(c.A), uh(c.B))
		return fmt.Sprintf("%s/%v", hx(o), err != nil)
	case "x25519base":
		o, err := x25519.X25519(uh(c.A), x25519.Basepoint)
		var d [32]byte
		var in [32]byte
		copy(in[:], uh(c.A))
		x25519.ScalarBaseMult(&d, &in)
		return fmt.Sprintf("%s/%v/%s", hx(o), err != nil, hx(d[:]))
	case "convpriv":
		k := ed25519.NewKeyFromSeed(uh(c.A))
		return hx(x25519.EdPrivateKeyToX25519(k))
	case "convpub":
		o, ok := x25519.EdPublicKeyToX25519(uh(c.A))
		return fmt.Sprintf("%s/%v", hx(o), ok)
	}
	return "?"
}

func vfields(c *Call, v ref.Variant) {
	if v.Ph {
		c.Hash = int(crypto.SHA512)
	}
	if !v.Pure {
		c.Ctx = hx(v.Ctx)
	}
}

func generate(w *bufio.Writer, seed int64, tier string) {
	rng := rand.New(rand.NewSource(seed*7919 + 8))
	n := 0
	emit := func(c *Call) {
		b, _ := json.Marshal(c)
		w.Write(b)
		w.WriteByte('\n')
		n++
	}
	triple := func(t gen.Triple, class string) {
		for _, zip := range []bool{false, true} {
			c := &Call{Op: "verify", Class: class, A: hx(t.Pub), B: hx(t.Msg), C: hx(t.Sig), Zip: zip}
			vfields(c, t.V)
			emit(c)
		}
	}
	so := ref.SmallOrderEncodings()
	rounds := 12
	if tier == "thorough" {
		rounds = 450
	}
	for r := 0; r < rounds; r++ {
		// key generation and the three signing variants (incl. long messages and all context classes)
		for i := 0; i < 12; i++ {
			v := gen.Variant(rng, i%3)
			sd := gen.Seed(rng)
			emit(&Call{Op: "keygen", Class: "keygen", A: hx(sd)})
			c := &Call{Op: "sign", Class: "sign/" + gen.VariantName(v), A: hx(sd), B: hx(gen.MsgFor(rng, v))}
			vfields(c, v)
			emit(c)
			emit(&Call{Op: "convpriv", Class: "convpriv", A: hx(sd)})
		}
		// bulk signing with random seeds/messages: needs no model work to
		// generate, the configurations check each other (rare carry/borrow
		// patterns in the scalar reduction are hit by volume)
		for i := 0; i < 150; i++ {
			v := ref.Variant{Pure: true}
			if i%5 == 0 {
				v = gen.Variant(rng, -1)
			}
			c := &Call{Op: "sign", Class: "sign-bulk/" + gen.VariantName(v), A: hx(gen.RandBytes(rng, 32)), B: hx(gen.MsgFor(rng, v))}
			vfields(c, v)
			emit(c)
			if i%3 == 0 {
				emit(&Call{Op: "x25519base", Class: "x25519base-bulk", A: hx(gen.RandBytes(rng, 32))})
			}
		}
		// verification verdicts in both modes
		for i := 0; i < 8; i++ {
			triple(gen.Torsion(rng, rng.Intn(8), rng.Intn(8), rng.Intn(5) == 0, rng.Intn(5) == 0, -1), "torsion")
		}
		sb := gen.SBound(rng)
		for i := 0; i < 10; i++ {
			triple(gen.SmallKey(rng, so[rng.Intn(14)], sb[rng.Intn(len(sb))], rng.Intn(8), -1), "smallkey-Sbound")
		}
		// top slice [2^252, L) explicitly
		delta := new(big.Int).Sub(ref.L, gen.P2_252)
		for i := 0; i < 4; i++ {
			triple(gen.SmallKey(rng, so[rng.Intn(14)], new(big.Int).Add(gen.P2_252, gen.RandBelow(rng, delta)), rng.Intn(8), -1), "smallkey-topslice")
		}
		for i := 0; i < 3; i++ {
			triple(gen.NoncanonR(rng, so[rng.Intn(14)], -1), "noncanonR")
			triple(gen.Honest(rng, -1), "honest")
			h := gen.Honest(rng, -1)
			ps := gen.AllPerturbs(h)
			triple(gen.ApplyPerturb(h, ps[rng.Intn(len(ps))]), "perturbed")
		}
		for i := 0; i < 6; i++ {
			g, _ := gen.Garbage32(rng)
			h := gen.Honest(rng, -1)
			if i%2 == 0 {
				h.Pub = g
			} else {
				copy(h.Sig[:32], g)
			}
			triple(h, "garbage")
			emit(&Call{Op: "convpub", Class: "convpub", A: hx(g)})
		}
		ks, _ := gen.SpecialKeys()
		for i := 0; i < 6; i++ {
			emit(&Call{Op: "convpub", Class: "convpub-special", A: hx(ks[rng.Intn(len(ks))])})
		}
		// X25519 on both paths
		scs := gen.XScalars(rng)
		pts, _ := gen.XPoints(rng)
		for i := 0; i < 14; i++ {
			sc := scs[rng.Intn(len(scs))]
			emit(&Call{Op: "x25519base", Class: "x25519base", A: hx(sc)})
			emit(&Call{Op: "x25519", Class: "x25519", A: hx(sc), B: hx(pts[rng.Intn(len(pts))])})
		}
		// batches with seeded entropy
		for i := 0; i < 3; i++ {
			v := gen.Variant(rng, -1)
			sizes := []int{4, 5, 7, 8, 33, 64, 65, 68, 70, 130}
			bn := sizes[rng.Intn(len(sizes))]
			if i > 0 {
				bn = sizes[rng.Intn(4)]
			}
			c := &Call{Op: "batch", Class: fmt.Sprintf("batch/%d", bn), Zip: rng.Intn(2) == 0, ESeed: rng.Int63()}
			vfields(c, v)
			var pool []gen.Triple
			for k := 0; k < 3; k++ {
				sd := gen.Seed(rng)
				msg := gen.MsgFor(rng, v)
				pub, sig := ref.Sign(sd, msg, v)
				pool = append(pool, gen.Triple{Pub: pub, Msg: msg, Sig: sig})
			}
			// one mixed-order member and one ZIP-215-only member
			{
				a, rr := gen.RandScalar(rng), gen.RandScalar(rng)
				A := gen.NewKeyPoint(rng, a, rng.Intn(8), -1)
				R := gen.NewKeyPoint(rng, rr, rng.Intn(8), -1)
				msg := gen.MsgFor(rng, v)
				pool = append(pool, gen.Triple{Pub: A.Enc, Msg: msg, Sig: ref.SignWith(a, rr, A.Enc, R.Enc, msg, v)})
				S := gen.RandBelow(rng, ref.L)
				if rng.Intn(2) == 0 {
					S = new(big.Int).Add(gen.P2_252, gen.RandBelow(rng, delta))
				}
				Rk := gen.NewKeyPoint(rng, S, rng.Intn(8), -1)
				msg2 := gen.MsgFor(rng, v)
				pool = append(pool, gen.Triple{Pub: so[rng.Intn(14)], Msg: msg2, Sig: append(append([]byte(nil), Rk.Enc...), ref.LEBytes(S, 32)...)})
			}
			for k := 0; k < bn; k++ {
				t := pool[rng.Intn(len(pool))].Clone()
				switch rng.Intn(12) {
				case 0:
					t.Sig[rng.Intn(64)] ^= 1 << uint(rng.Intn(8))
				case 1:
					if len(t.Msg) > 0 {
						t.Msg[0] ^= 1
					}
				case 2:
					S := ref.LEInt(t.Sig[32:])
					S.Add(S, ref.L)
					if S.Cmp(gen.P2_256) < 0 {
						copy(t.Sig[32:], ref.LEBytes(S, 32))
					}
				}
				c.Keys = append(c.Keys, hx(t.Pub))
				c.Msgs = append(c.Msgs, hx(t.Msg))
				c.Sigs = append(c.Sigs, hx(t.Sig))
			}
			emit(c)
		}
	}
	_ = sha512.Size
	fmt.Println("generated", n, "calls")
}
