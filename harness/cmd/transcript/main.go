// transcript: deterministic API transcript for property C08.
//
//	transcript -gen -seed N -tier T -out calls.jsonl     build the call list with the big-int model
//	transcript -exec calls.jsonl -out transcript.txt     execute it against this build configuration
//
// The same call list is executed by one binary per build configuration;
// transcripts must be byte-identical.
package main

import (
	"bufio"
	"encoding/json"
	"flag"
	"fmt"
	"os"

	"github.com/oasisprotocol/ed25519/verifh/calls"
	"github.com/oasisprotocol/ed25519/verifh/ref"
)

func main() {
	var doGen bool
	var execFile, out, tier string
	var seed int64
	var single int
	flag.BoolVar(&doGen, "gen", false, "generate call list")
	flag.StringVar(&execFile, "exec", "", "execute call list")
	flag.StringVar(&out, "out", "", "output file")
	flag.StringVar(&tier, "tier", "quick", "tier")
	flag.Int64Var(&seed, "seed", 1, "seed")
	flag.IntVar(&single, "only", -1, "execute only this call index (replay)")
	flag.Parse()
	f, err := os.Create(out)
	if err != nil {
		fmt.Println(err)
		os.Exit(3)
	}
	w := bufio.NewWriterSize(f, 1<<20)
	defer func() { w.Flush(); f.Close() }()
	if doGen {
		if bad := ref.SelfCheck(); len(bad) > 0 {
			fmt.Println("INCONCLUSIVE oracle self-validation failed", bad)
			os.Exit(3)
		}
		rounds := 12
		if tier == "thorough" {
			rounds = 450
		}
		fmt.Println("generated", calls.Generate(w, seed, rounds), "calls")
		return
	}
	in, err := os.Open(execFile)
	if err != nil {
		fmt.Println(err)
		os.Exit(3)
	}
	sc := bufio.NewScanner(in)
	sc.Buffer(make([]byte, 1<<20), 1<<26)
	idx := 0
	for sc.Scan() {
		if single >= 0 && idx != single {
			idx++
			continue
		}
		var c calls.Call
		if err := json.Unmarshal(sc.Bytes(), &c); err != nil {
			fmt.Println(err)
			os.Exit(3)
		}
		fmt.Fprintf(w, "%d %s %s\n", idx, c.Op, calls.Execute(&c))
		idx++
	}
}
