// instrument: build-time monitor injection for the "monitored build".
//
// For every selected top-level function F of a library package the tool
// writes a copy of the source file in which F is renamed F__orig, and a
// generated wrapper F that snapshots the arguments (targets of pointers,
// contents of byte slices), calls F__orig, and hands (name, pre, post,
// results) to the package's VerifHook variable.  The harness, which imports
// the library packages, installs monitors on the hooks.  The tool also emits
// a generated VerifStateDump() per package (prints every package-level
// variable; used by the C15 state monitor) and copies hand-written shim
// files into the package.  Everything is returned as a `go build -overlay`
// JSON file; /repo itself is never modified.
//
//	instrument -repo /repo -tags "verif force32bit" -goarch amd64 -shims <dir> -out <dir>
package main

import (
	"bytes"
	"encoding/json"
	"flag"
	"fmt"
	"go/ast"
	"go/build"
	"go/parser"
	"go/printer"
	"go/token"
	"os"
	"path/filepath"
	"sort"
	"strings"
)

type pkgSpec struct {
	dir      string   // relative to repo
	allExp   bool     // wrap all exported top-level funcs
	names    []string // additional (or the only) function names
	noSnap   map[string][]int
	shim     string // shim file base name in the shims dir ("" = none)
	skipVars map[string]bool
}

var specs = []pkgSpec{
	{dir: "internal/curve25519", allExp: true, shim: "curve25519_shim.go.txt"},
	{dir: "internal/modm", allExp: true, shim: "modm_shim.go.txt"},
	{dir: "internal/ge25519", names: []string{"ScalarmultBaseNiels", "DoubleScalarmultVartime", "Add", "Double", "Pack", "UnpackNegativeVartime", "UnpackVartime",
		"CofactorMultiply", "CofactorEqual", "IsNeutralVartime", "ProjectiveToExtended", "scalarmultBaseChooseNiels", "moveConditionalBytes"},
		noSnap: map[string][]int{"scalarmultBaseChooseNiels": {1}, "ScalarmultBaseNiels": {1}}, shim: "ge25519_shim.go.txt"},
	{dir: ".", names: []string{"scMinimal", "isSmallOrderVartime", "multiScalarmultVartime"}, shim: "root_shim.go.txt"},
	{dir: "extra/x25519", names: nil, shim: ""},
}

func main() {
	var repo, tags, goarch, shims, out string
	flag.StringVar(&repo, "repo", "/repo", "repository root")
	flag.StringVar(&tags, "tags", "verif", "build tags")
	flag.StringVar(&goarch, "goarch", "amd64", "GOARCH")
	flag.StringVar(&shims, "shims", "", "directory with hand-written shim files")
	flag.StringVar(&out, "out", "", "output directory")
	flag.Parse()
	if err := os.MkdirAll(out, 0o755); err != nil {
		die(err)
	}
	overlay := map[string]string{}
	report := map[string]interface{}{}
	ctx := build.Default
	ctx.GOARCH = goarch
	ctx.GOOS = "linux"
	ctx.CgoEnabled = false
	ctx.BuildTags = strings.Fields(tags)
	for _, sp := range specs {
		dir := filepath.Join(repo, sp.dir)
		bp, err := ctx.ImportDir(dir, 0)
		if err != nil {
			die(fmt.Errorf("%s: %v", dir, err))
		}
		wrapped, vars, err := doPackage(dir, bp, sp, out, overlay)
		if err != nil {
			die(err)
		}
		missing := []string{}
		have := map[string]bool{}
		for _, w := range wrapped {
			have[w] = true
		}
		for _, n := range sp.names {
			if !have[n] {
				missing = append(missing, n)
			}
		}
		report[sp.dir] = map[string]interface{}{"wrapped": wrapped, "missing": missing, "state_vars": vars}
		if sp.shim != "" && shims != "" {
			src := filepath.Join(shims, sp.shim)
			if _, err := os.Stat(src); err == nil {
				overlay[filepath.Join(dir, "zz_verif_shim.go")] = src
			}
		}
	}
	js, _ := json.MarshalIndent(map[string]interface{}{"Replace": overlay}, "", " ")
	if err := os.WriteFile(filepath.Join(out, "overlay.json"), js, 0o644); err != nil {
		die(err)
	}
	rj, _ := json.MarshalIndent(report, "", " ")
	os.WriteFile(filepath.Join(out, "report.json"), rj, 0o644)
	fmt.Println(string(rj))
}

func die(err error) {
	fmt.Fprintln(os.Stderr, "instrument:", err)
	os.Exit(1)
}

func typeText(fset *token.FileSet, e ast.Expr) string {
	var b bytes.Buffer
	printer.Fprint(&b, fset, e)
	return b.String()
}

func doPackage(dir string, bp *build.Package, sp pkgSpec, out string, overlay map[string]string) ([]string, []string, error) {
	want := map[string]bool{}
	for _, n := range sp.names {
		want[n] = true
	}
	tag := strings.NewReplacer("/", "_", ".", "root").Replace(sp.dir)
	var wrappers []string
	var wrapped []string
	var stateVars []string
	imports := map[string]string{} // local name -> path, collected from instrumented files
	usedPkgs := map[string]bool{}
	for _, fn := range bp.GoFiles {
		path := filepath.Join(dir, fn)
		fset := token.NewFileSet()
		af, err := parser.ParseFile(fset, path, nil, parser.ParseComments)
		if err != nil {
			return nil, nil, err
		}
		fileImports := map[string]string{}
		for _, im := range af.Imports {
			p := strings.Trim(im.Path.Value, "\"")
			name := filepath.Base(p)
			if im.Name != nil {
				name = im.Name.Name
			}
			fileImports[name] = p
		}
		changed := false
		for _, d := range af.Decls {
			switch x := d.(type) {
			case *ast.GenDecl:
				if x.Tok == token.VAR {
					for _, s := range x.Specs {
						vs := s.(*ast.ValueSpec)
						for _, n := range vs.Names {
							if n.Name == "_" || sp.skipVars[n.Name] || strings.HasPrefix(n.Name, "verif") || strings.HasPrefix(n.Name, "Verif") {
								continue
							}
							// function-typed variables cannot be printed meaningfully
							if vs.Type != nil {
								if _, isFn := vs.Type.(*ast.FuncType); isFn {
									continue
								}
							}
							stateVars = append(stateVars, n.Name)
						}
					}
				}
			case *ast.FuncDecl:
				if x.Recv != nil || x.Body == nil {
					continue
				}
				name := x.Name.Name
				if !(want[name] || (sp.allExp && ast.IsExported(name))) {
					continue
				}
				if strings.HasPrefix(name, "Verif") {
					continue
				}
				w, used := genWrapper(fset, x, sp.noSnap[name])
				for u := range used {
					if p, ok := fileImports[u]; ok {
						imports[u] = p
						usedPkgs[u] = true
					}
				}
				wrappers = append(wrappers, w)
				wrapped = append(wrapped, name)
				x.Name.Name = name + "__orig"
				changed = true
			}
		}
		if changed {
			var buf bytes.Buffer
			if err := printer.Fprint(&buf, fset, af); err != nil {
				return nil, nil, err
			}
			o := filepath.Join(out, tag+"__"+fn)
			if err := os.WriteFile(o, buf.Bytes(), 0o644); err != nil {
				return nil, nil, err
			}
			overlay[path] = o
		}
	}
	sort.Strings(wrappers)
	sort.Strings(stateVars)
	var wb bytes.Buffer
	fmt.Fprintf(&wb, "// Code generated by verifh/cmd/instrument. DO NOT EDIT.\n\npackage %s\n\nimport (\n\t\"fmt\"\n", bp.Name)
	var ims []string
	for n := range usedPkgs {
		ims = append(ims, n)
	}
	sort.Strings(ims)
	for _, n := range ims {
		if n == "fmt" {
			continue
		}
		if filepath.Base(imports[n]) == n {
			fmt.Fprintf(&wb, "\t%q\n", imports[n])
		} else {
			fmt.Fprintf(&wb, "\t%s %q\n", n, imports[n])
		}
	}
	fmt.Fprintf(&wb, ")\n\nvar _ = fmt.Sprintf\n\n// VerifHook receives (function, arguments before, arguments after, results)\n// for every instrumented call when it is not nil.\nvar VerifHook func(name string, pre, post, ret []interface{})\n\n")
	for _, w := range wrappers {
		wb.WriteString(w)
		wb.WriteString("\n")
	}
	// state dump
	fmt.Fprintf(&wb, "// VerifStateDump renders every package-level variable (one per line).\nfunc VerifStateDump() string {\n\ts := \"\"\n")
	for _, v := range stateVars {
		fmt.Fprintf(&wb, "\ts += fmt.Sprintf(\"%s.%s=%%v\\n\", %s)\n", bp.Name, v, v)
	}
	fmt.Fprintf(&wb, "\treturn s\n}\n")
	o := filepath.Join(out, tag+"__zz_verif_wrappers.go")
	if err := os.WriteFile(o, wb.Bytes(), 0o644); err != nil {
		return nil, nil, err
	}
	overlay[filepath.Join(dir, "zz_verif_wrappers.go")] = o
	return wrapped, stateVars, nil
}

// genWrapper renders the monitor wrapper for fd (before it is renamed).
func genWrapper(fset *token.FileSet, fd *ast.FuncDecl, noSnap []int) (string, map[string]bool) {
	used := map[string]bool{}
	name := fd.Name.Name
	skip := map[int]bool{}
	for _, i := range noSnap {
		skip[i] = true
	}
	var params, args, snaps []string
	idx := 0
	noteType := func(e ast.Expr) {
		ast.Inspect(e, func(n ast.Node) bool {
			if se, ok := n.(*ast.SelectorExpr); ok {
				if id, ok := se.X.(*ast.Ident); ok {
					used[id.Name] = true
				}
			}
			return true
		})
	}
	for _, fl := range fd.Type.Params.List {
		tt := typeText(fset, fl.Type)
		noteType(fl.Type)
		for _, n := range fl.Names {
			params = append(params, n.Name+" "+tt)
			args = append(args, n.Name)
			switch {
			case skip[idx]:
				snaps = append(snaps, "nil")
			case strings.HasPrefix(tt, "*"):
				snaps = append(snaps, fmt.Sprintf("func() interface{} {\n\t\t\tif %s == nil {\n\t\t\t\treturn nil\n\t\t\t}\n\t\t\treturn *%s\n\t\t}()", n.Name, n.Name))
			case tt == "[]byte":
				snaps = append(snaps, fmt.Sprintf("append([]byte(nil), %s...)", n.Name))
			default:
				snaps = append(snaps, n.Name)
			}
			idx++
		}
	}
	var results, rnames []string
	if fd.Type.Results != nil {
		k := 0
		for _, fl := range fd.Type.Results.List {
			tt := typeText(fset, fl.Type)
			noteType(fl.Type)
			cnt := len(fl.Names)
			if cnt == 0 {
				cnt = 1
			}
			for j := 0; j < cnt; j++ {
				rn := fmt.Sprintf("verifRet%d", k)
				results = append(results, rn+" "+tt)
				rnames = append(rnames, rn)
				k++
			}
		}
	}
	var b bytes.Buffer
	fmt.Fprintf(&b, "func %s(%s)", name, strings.Join(params, ", "))
	if len(results) > 0 {
		fmt.Fprintf(&b, " (%s)", strings.Join(results, ", "))
	}
	b.WriteString(" {\n\tverifH := VerifHook\n\tif verifH == nil {\n\t\t")
	call := fmt.Sprintf("%s__orig(%s)", name, strings.Join(args, ", "))
	if len(rnames) > 0 {
		fmt.Fprintf(&b, "return %s\n\t}\n", call)
	} else {
		fmt.Fprintf(&b, "%s\n\t\treturn\n\t}\n", call)
	}
	snapList := func() string {
		var sb strings.Builder
		sb.WriteString("[]interface{}{\n")
		for _, s := range snaps {
			sb.WriteString("\t\t" + s + ",\n")
		}
		sb.WriteString("\t}")
		return sb.String()
	}
	fmt.Fprintf(&b, "\tverifPre := %s\n", snapList())
	if len(rnames) > 0 {
		fmt.Fprintf(&b, "\t%s = %s\n", strings.Join(rnames, ", "), call)
	} else {
		fmt.Fprintf(&b, "\t%s\n", call)
	}
	fmt.Fprintf(&b, "\tverifH(%q, verifPre, %s, []interface{}{%s})\n\treturn\n}\n", name, snapList(), strings.Join(rnames, ", "))
	return b.String(), used
}
