package main

import (
	"bytes"
	"fmt"
	"math/big"

	"github.com/oasisprotocol/ed25519"
	"github.com/oasisprotocol/ed25519/extra/x25519"
	"github.com/oasisprotocol/ed25519/internal/curve25519"
	"github.com/oasisprotocol/ed25519/internal/ge25519"
	"github.com/oasisprotocol/ed25519/verifh/ev"
	"github.com/oasisprotocol/ed25519/verifh/gen"
	"github.com/oasisprotocol/ed25519/verifh/ref"
)

func init() {
	monitors["C10"] = runC10
	replayers["decode"] = func(rec *ev.Rec, c map[string]interface{}) bool {
		return judgeDecode(rec, hexf(c, "b"), str(c, "class"))
	}
	replayers["encode-out"] = func(rec *ev.Rec, c map[string]interface{}) bool {
		return judgeOutputs(rec, hexf(c, "seed"), hexf(c, "msg"), caseVariant(c["variant"]))
	}
}

// sqrtBranch classifies which branch of the RFC 8032 square-root the
// string exercises (model computation).
func sqrtBranch(b []byte) string {
	c := append([]byte(nil), b...)
	c[31] &= 0x7f
	y := ref.LEInt(c)
	y.Mod(y, ref.P)
	y2 := new(big.Int).Mul(y, y)
	y2.Mod(y2, ref.P)
	u := new(big.Int).Sub(y2, gen.One)
	u.Mod(u, ref.P)
	v := new(big.Int).Mul(ref.D, y2)
	v.Add(v, gen.One).Mod(v, ref.P)
	if u.Sign() == 0 {
		return "numerator-0"
	}
	// x = u v^3 (u v^7)^((p-5)/8)
	v3 := new(big.Int).Exp(v, big.NewInt(3), ref.P)
	v7 := new(big.Int).Exp(v, big.NewInt(7), ref.P)
	e := new(big.Int).Sub(ref.P, big.NewInt(5))
	e.Rsh(e, 3)
	t := new(big.Int).Mul(u, v7)
	t.Mod(t, ref.P)
	t.Exp(t, e, ref.P)
	x := new(big.Int).Mul(u, v3)
	x.Mod(x, ref.P).Mul(x, t).Mod(x, ref.P)
	vx2 := new(big.Int).Mul(x, x)
	vx2.Mod(vx2, ref.P).Mul(vx2, v).Mod(vx2, ref.P)
	if vx2.Cmp(u) == 0 {
		return "candidate-root"
	}
	nu := new(big.Int).Sub(ref.P, u)
	if vx2.Cmp(nu) == 0 {
		return "root-times-sqrt(-1)"
	}
	return "non-square"
}

// dirtyPoint is reused across decode calls on purpose.
var dirtyPoint ge25519.Ge25519

func feBytes(f *curve25519.Bignum25519) []byte {
	var out [32]byte
	curve25519.Contract(out[:], f)
	return out[:]
}

// judgeDecode drives the decoder directly (exported functions of the
// internal group package, importable from the nested harness module) and
// through the key-conversion API, and compares with the lenient rule.
func judgeDecode(rec *ev.Rec, b []byte, class string) bool {
	c := map[string]interface{}{"op": "decode", "b": ev.Hex(b), "class": class}
	rec.About(c)
	snap := append([]byte(nil), b...)
	pt, dec := ref.Decode(b)
	bad := ""
	pn := safe(func() {
		var p, n ge25519.Ge25519
		ok := ge25519.UnpackVartime(&p, b)
		okN := ge25519.UnpackNegativeVartime(&n, b)
		_, okC := x25519.EdPublicKeyToX25519(ed25519.PublicKey(b))
		if ok != dec || okN != dec || okC != dec {
			bad = fmt.Sprintf("decodable: UnpackVartime=%v UnpackNegativeVartime=%v EdPublicKeyToX25519=%v model=%v", ok, okN, okC, dec)
			return
		}
		if !bytes.Equal(b, snap) {
			bad = "decoder modified its input"
			return
		}
		if !dec {
			return
		}
		wx, wy := ref.LEBytes(pt.X, 32), ref.LEBytes(pt.Y, 32)
		if !bytes.Equal(feBytes(p.X()), wx) || !bytes.Equal(feBytes(p.Y()), wy) || !bytes.Equal(feBytes(p.Z()), ref.LEBytes(gen.One, 32)) {
			bad = fmt.Sprintf("decoded point (x=%x,y=%x), model (x=%x,y=%x)", feBytes(p.X()), feBytes(p.Y()), wx, wy)
			return
		}
		nx := ref.LEBytes(ref.Neg(pt).X, 32)
		if !bytes.Equal(feBytes(n.X()), nx) || !bytes.Equal(feBytes(n.Y()), wy) {
			bad = "UnpackNegativeVartime did not return the negated point"
			return
		}
		// decoding into a variable that already holds another point (as the
		// batch verifier does from its second chunk on) gives the same point
		if !ge25519.UnpackVartime(&dirtyPoint, b) || !bytes.Equal(feBytes(dirtyPoint.X()), wx) || !bytes.Equal(feBytes(dirtyPoint.Y()), wy) || !bytes.Equal(feBytes(dirtyPoint.Z()), ref.LEBytes(gen.One, 32)) {
			bad = "decoding into a previously used point variable gives a different result than decoding into a fresh one"
			return
		}
		var chk [32]byte
		ge25519.Pack(chk[:], &dirtyPoint)
		if !bytes.Equal(chk[:], ref.Encode(pt)) {
			bad = "point decoded into a previously used variable does not re-encode canonically"
			return
		}
		ge25519.Double(&dirtyPoint, &dirtyPoint) // leave a non-trivial projective value behind
		var e1, e2, e3, e4 [32]byte
		ge25519.Pack(e1[:], &p)
		ge25519.Pack(e2[:], &n)
		if !bytes.Equal(e1[:], ref.Encode(pt)) {
			bad = fmt.Sprintf("Pack(Unpack(b)) = %x, canonical encoding = %x", e1, ref.Encode(pt))
			return
		}
		if !bytes.Equal(e2[:], ref.Encode(ref.Neg(pt))) {
			bad = fmt.Sprintf("Pack(UnpackNegative(b)) = %x, canonical encoding of -P = %x", e2, ref.Encode(ref.Neg(pt)))
			return
		}
		// encode a projective (Z != 1) representation: 2P and P+(-P)+P
		var d, s ge25519.Ge25519
		ge25519.Double(&d, &p)
		ge25519.Pack(e3[:], &d)
		if w := ref.Encode(ref.Add(pt, pt)); !bytes.Equal(e3[:], w) {
			bad = fmt.Sprintf("Pack([2]P) = %x, model %x", e3, w)
			return
		}
		ge25519.Add(&s, &d, &n)
		ge25519.Pack(e4[:], &s)
		if !bytes.Equal(e4[:], ref.Encode(pt)) {
			bad = fmt.Sprintf("Pack([2]P - P) = %x, model %x", e4, ref.Encode(pt))
			return
		}
		// decode-then-encode canonicalises; encode-then-decode is the identity
		var q ge25519.Ge25519
		if !ge25519.UnpackVartime(&q, e1[:]) {
			bad = "canonical re-encoding does not decode"
			return
		}
		var e5 [32]byte
		ge25519.Pack(e5[:], &q)
		if e5 != e1 {
			bad = "encode-then-decode-then-encode is not the identity"
		}
	})
	if pn != "" {
		bad = "panic: " + pn
	}
	st := "undecodable"
	if dec {
		st = "decodable"
	}
	rec.Eval("decode/"+class, "decode/"+st, "sqrt/"+sqrtBranch(b))
	cc := append([]byte(nil), b...)
	cc[31] &= 0x7f
	if ref.LEInt(cc).Cmp(ref.P) >= 0 {
		rec.Class("decode/y>=p", 1)
	}
	if dec && pt.X.Sign() == 0 {
		rec.Class(fmt.Sprintf("decode/x=0,sign=%d", b[31]>>7), 1)
	}
	rec.Nontrivial(b)
	if bad != "" {
		rec.Violate("lenient-decode", bad, "decode/"+class, c)
		return true
	}
	if class != "random" {
		rec.Sample(map[string]interface{}{"b": ev.Hex(b), "class": class, "decodable": dec, "sqrt_branch": sqrtBranch(b)})
	}
	return false
}

// judgeOutputs: every point the library outputs is canonically encoded.
func judgeOutputs(rec *ev.Rec, seed, msg []byte, v ref.Variant) bool {
	c := signCase("encode-out", seed, msg, v)
	rec.About(c)
	bad := ""
	pn := safe(func() {
		priv := ed25519.NewKeyFromSeed(seed)
		pub := []byte(priv.Public().(ed25519.PublicKey))
		var sig []byte
		if v.Pure {
			sig = ed25519.Sign(priv, msg)
		} else {
			sig, _ = priv.Sign(nil, msg, libOpts(v, false))
		}
		for name, e := range map[string][]byte{"public key": pub, "R": sig[:32]} {
			pt, ok := ref.Decode(e)
			if !ok {
				bad = name + " output does not decode"
				return
			}
			if !bytes.Equal(ref.Encode(pt), e) {
				bad = fmt.Sprintf("%s output %x is not canonical (canonical %x)", name, e, ref.Encode(pt))
				return
			}
		}
	})
	if pn != "" {
		bad = "panic: " + pn
	}
	rec.Eval("outputs-canonical")
	rec.Nontrivial(seed, msg, []byte("out"))
	if bad != "" {
		rec.Violate("canonical-output", bad, "encode-out", c)
		return true
	}
	return false
}

func runC10(cfg *Cfg, rec *ev.Rec) {
	rng := cfg.rng("c10")
	ks, cs := gen.SpecialKeys()
	for i := range ks {
		if cfg.mine(i) {
			judgeDecode(rec, ks[i], cs[i])
		}
	}
	xk, xc := gen.SmallXKeys()
	for i := range xk {
		if cfg.mine(i) {
			judgeDecode(rec, xk[i], xc[i])
		}
	}
	n := cfg.n(20000, 2000000)
	for i := 0; i < n; i++ {
		switch i % 10 {
		case 0:
			g, cl := gen.Garbage32(rng)
			judgeDecode(rec, g, cl)
		case 1:
			kp := gen.NewKeyPoint(rng, gen.RandScalar(rng), rng.Intn(8), -1)
			judgeDecode(rec, kp.Enc, "mixed-order/"+kp.EncKind)
		case 2:
			if i%200 == 2 {
				v := gen.Variant(rng, -1)
				judgeOutputs(rec, gen.Seed(rng), gen.MsgFor(rng, v), v)
			} else {
				// decodable string with the sign bit flipped / top bit games
				kp := gen.NewKeyPoint(rng, gen.RandScalar(rng), 0, 0)
				e := append([]byte(nil), kp.Enc...)
				e[31] ^= 0x80
				judgeDecode(rec, e, "sign-flipped")
			}
		default:
			judgeDecode(rec, gen.RandBytes(rng, 32), "random")
		}
	}
	// "hashed as given": a non-canonical key / R encoding verifies only when the
	// hash covers the bytes as supplied (ZIP-215 mode; small-order points are
	// the only ones with both a known discrete log and a non-canonical twin)
	so := ref.SmallOrderEncodings()
	for i, e := range so {
		if !cfg.mine(i) {
			continue
		}
		t := gen.NoncanonR(rng, e, -1)
		judgeVerify(rec, "hashed-as-given", t, true, "single", 0, 0, 0)
		pt, _ := ref.Decode(e)
		canon := ref.Encode(pt)
		if !bytes.Equal(canon, e) {
			// same point, canonical bytes substituted after signing: hash differs, must be rejected
			t2 := t.Clone()
			copy(t2.Sig[:32], canon)
			t2.Family = "noncanonR-canonicalised"
			judgeVerify(rec, "hashed-as-given", t2, true, "single", 0, 0, 0)
		}
		k := gen.SmallKey(rng, e, gen.RandBelow(rng, ref.L), rng.Intn(8), -1)
		judgeVerify(rec, "hashed-as-given", k, true, "single", 0, 0, 0)
	}
}
