package main

import (
	"fmt"
	"math/big"
	"math/rand"

	"github.com/oasisprotocol/ed25519"
	"github.com/oasisprotocol/ed25519/verifh/ev"
	"github.com/oasisprotocol/ed25519/verifh/gen"
	"github.com/oasisprotocol/ed25519/verifh/ref"
)

func init() {
	monitors["C01"] = runC01
	monitors["C04"] = runC04
	monitors["C05"] = runC05
	monitors["C09"] = runC09
	replayers["verify"] = func(rec *ev.Rec, c map[string]interface{}) bool {
		t := gen.Triple{Pub: hexf(c, "pub"), Msg: hexf(c, "msg"), Sig: hexf(c, "sig"), V: caseVariant(c["variant"]), Family: str(c, "family")}
		return judgeVerify(rec, str(c, "sub"), t, boolf(c, "zip215"), str(c, "mode"), intf(c, "n"), intf(c, "pos"), int64(intf(c, "eseed")))
	}
	replayers["verify-relation"] = func(rec *ev.Rec, c map[string]interface{}) bool {
		t := gen.Triple{Pub: hexf(c, "pub"), Msg: hexf(c, "msg"), Sig: hexf(c, "sig"), V: caseVariant(c["variant"]), Family: str(c, "family")}
		return judgeRelation(rec, t)
	}
}

func tripleCase(op, sub string, t gen.Triple, zip bool, mode string, n, pos int, eseed int64) map[string]interface{} {
	return map[string]interface{}{"op": op, "sub": sub, "pub": ev.Hex(t.Pub), "msg": ev.Hex(t.Msg), "sig": ev.Hex(t.Sig),
		"variant": variantCase(t.V), "zip215": zip, "mode": mode, "n": n, "pos": pos, "eseed": eseed, "family": t.Family}
}

// companion cache: honest triples per (variant, ctx) for batch embedding
var companions = map[string][]gen.Triple{}

func companionsFor(v ref.Variant, k int) []gen.Triple {
	key := gen.VariantName(v) + "/" + string(v.Ctx)
	c := companions[key]
	for len(c) < k {
		rng := rand.New(rand.NewSource(int64(len(c)) + 77))
		seed := gen.RandBytes(rng, 32)
		var msg []byte
		if v.Ph {
			msg = gen.RandBytes(rng, 64)
		} else {
			msg = gen.RandBytes(rng, 10+len(c))
		}
		pub, sig := ref.Sign(seed, msg, v)
		c = append(c, gen.Triple{Pub: pub, Msg: msg, Sig: sig, V: v})
	}
	if len(companions) > 256 {
		companions = map[string][]gen.Triple{}
	}
	companions[key] = c
	return c[:k]
}

// batchVerdict embeds t at position pos of an n-entry batch whose other
// members are honest, with a seeded uniform entropy stream.
func batchVerdict(t gen.Triple, zip bool, n, pos int, eseed int64) (entry bool, others bool, all bool, err error, pan string) {
	// a few distinct honest companions, repeated cyclically (repeated
	// entries are legitimate batch members)
	nc := n - 1
	if nc > 5 {
		nc = 5
	}
	base := companionsFor(t.V, nc)
	comp := make([]gen.Triple, n-1)
	for i := range comp {
		comp[i] = base[i%len(base)]
	}
	keys := make([]ed25519.PublicKey, n)
	msgs := make([][]byte, n)
	sigs := make([][]byte, n)
	j := 0
	for i := 0; i < n; i++ {
		if i == pos {
			keys[i], msgs[i], sigs[i] = t.Pub, t.Msg, t.Sig
			continue
		}
		keys[i], msgs[i], sigs[i] = comp[j].Pub, comp[j].Msg, comp[j].Sig
		j++
	}
	// every fifth case an honest companion of the same 64-entry chunk is damaged,
	// so that the chunk is decided by the per-signature fallback
	bpos := -1
	if n >= 2 && eseed%5 == 0 {
		lo := (pos / 64) * 64
		hi := lo + 64
		if hi > n {
			hi = n
		}
		if hi-lo >= 2 {
			bpos = lo + int((eseed/5)%int64(hi-lo))
			if bpos == pos {
				bpos = lo + (pos-lo+1)%(hi-lo)
			}
			sigs[bpos] = append([]byte(nil), sigs[bpos]...)
			sigs[bpos][34] ^= 0x20
		}
	}
	var valid []bool
	pan = safe(func() {
		all, valid, err = ed25519.VerifyBatch(rand.New(rand.NewSource(eseed)), keys, msgs, sigs, libOpts(t.V, zip))
	})
	if pan != "" || err != nil || len(valid) != n {
		return false, false, false, err, pan
	}
	others = true
	for i, v := range valid {
		if i != pos && i != bpos && !v {
			others = false
		}
	}
	if bpos >= 0 {
		if valid[bpos] || all {
			others = false // the damaged companion must be reported invalid
		}
		return valid[pos], others, valid[pos], nil, ""
	}
	return valid[pos], others, all, nil, ""
}

// judgeVerify executes one triple in one verifier mode and compares with
// the model predicate.  Returns true when a violation was recorded.
func judgeVerify(rec *ev.Rec, sub string, t gen.Triple, zip bool, mode string, n, pos int, eseed int64) bool {
	c := tripleCase("verify", sub, t, zip, mode, n, pos, eseed)
	rec.About(c)
	reason := ref.VerifyDetail(t.Pub, t.Msg, t.Sig, t.V, zip)
	want := reason == ref.RAccept
	var got bool
	bad := ""
	switch mode {
	case "single":
		var pan string
		got, pan = libVerify(t.Pub, t.Msg, t.Sig, t.V, zip)
		if pan != "" {
			bad = "unexpected panic: " + pan
		}
	case "batch":
		entry, others, all, err, pan := batchVerdict(t, zip, n, pos, eseed)
		got = entry
		rec.Class(fmt.Sprintf("batch-embed/n=%d/chunk-of-entry=%d", n, pos/64), 1)
		switch {
		case pan != "":
			bad = "VerifyBatch panicked: " + pan
		case err != nil:
			bad = "VerifyBatch error: " + err.Error()
		case !others:
			bad = "an honest companion entry was reported invalid"
		case all != entry:
			bad = fmt.Sprintf("summary flag %v but entry %v with all companions valid", all, entry)
		}
	}
	zs := "default"
	if zip {
		zs = "zip215"
	}
	rec.Eval(mode+"/"+zs+"/"+ref.ReasonNames[reason], "family/"+t.Family, "variant/"+gen.VariantName(t.V))
	for _, tg := range t.Tags {
		rec.Class("enc/"+tg, 1)
	}
	if len(t.Sig) == 64 {
		rec.Class("Sclass/"+gen.SClass(ref.LEInt(t.Sig[32:])), 1)
	}
	if reason != ref.RLen && !(t.Family == "garbage" && (reason == ref.RKeyUndecodable || reason == ref.RRUndecodable)) {
		rec.Nontrivial([]byte(mode), []byte(zs), t.Pub, t.Msg, t.Sig, []byte(gen.VariantName(t.V)), t.V.Ctx)
	}
	if bad == "" && got != want {
		bad = fmt.Sprintf("library=%v model=%v (model reason: %s)", got, want, ref.ReasonNames[reason])
	}
	if bad != "" {
		rec.Violate(sub, fmt.Sprintf("%s %s verification of a %s triple: %s", mode, zs, t.Family, bad),
			fmt.Sprintf("verify/%s/%s/model=%s/got=%v", mode, zs, ref.ReasonNames[reason], got), c)
		return true
	}
	if want {
		rec.Sample(map[string]interface{}{"family": t.Family, "mode": mode, "zip215": zip, "pub": ev.Hex(t.Pub), "sig": ev.Hex(t.Sig), "msglen": len(t.Msg), "variant": gen.VariantName(t.V), "verdict": got})
	}
	return false
}

// judgeRelation checks the relational part of C05 on the pair of observed
// verdicts: default => ZIP-215, and they differ only when key or R has
// small order (as classified by the model).
func judgeRelation(rec *ev.Rec, t gen.Triple) bool {
	c := tripleCase("verify-relation", "relation", t, false, "single", 0, 0, 0)
	rec.About(c)
	d, p1 := libVerify(t.Pub, t.Msg, t.Sig, t.V, false)
	z, p2 := libVerify(t.Pub, t.Msg, t.Sig, t.V, true)
	rec.Eval("relation")
	bad := ""
	switch {
	case p1 != "" || p2 != "":
		bad = "panic " + p1 + p2
	case d && !z:
		bad = "accepted in default mode but rejected in ZIP-215 mode"
	case d != z:
		A, okA := ref.Decode(t.Pub)
		var R ref.Point
		okR := false
		if len(t.Sig) == 64 {
			R, okR = ref.Decode(t.Sig[:32])
		}
		if !(okA && ref.IsSmallOrder(A)) && !(okR && ref.IsSmallOrder(R)) {
			bad = "modes differ although neither key nor R has small order"
		} else {
			rec.Class("relation/differ-on-small-order", 1)
		}
	}
	if bad != "" {
		rec.Violate("relation", bad, "relation/"+bad, c)
		return true
	}
	return false
}

// pickShape chooses a batch size and a position for the embedded entry:
// mostly small batches, sometimes multi-chunk ones with the entry in the
// second or third 64-entry chunk (offset arithmetic) or at a chunk edge.
func pickShape(rng *rand.Rand) (n, pos int) {
	switch r := rng.Intn(20); {
	case r < 11:
		n = []int{4, 5, 7, 8}[rng.Intn(4)]
		return n, rng.Intn(n)
	case r < 13: // fewer than 4 entries: every entry takes the per-signature path
		n = 1 + rng.Intn(3)
		return n, rng.Intn(n)
	case r < 15: // entry in the 1..3-entry remainder behind full chunks
		n = 65 + rng.Intn(3)
		return n, 64 + rng.Intn(n-64)
	}
	switch rng.Intn(6) {
	case 0:
		return 64, 63
	case 1:
		return 68, 64 + rng.Intn(4)
	case 2:
		return 70, 64 + rng.Intn(6)
	case 3:
		return 132, 128 + rng.Intn(4)
	case 4:
		return 69, rng.Intn(64)
	}
	return 130, 64 + rng.Intn(64)
}

// judgeBatchRelation runs one multi-chunk batch of pure-variant triples in
// default and in ZIP-215 mode and applies the relational part of C05 entry
// by entry: default => ZIP-215, and the modes differ only on entries whose
// key or R has small order.
func judgeBatchRelation(rec *ev.Rec, pool []gen.Triple, eseed int64) bool {
	var ts []gen.Triple
	for _, t := range pool {
		if t.V.Pure && len(t.Pub) == 32 {
			ts = append(ts, t)
		}
	}
	if len(ts) < 8 {
		return false
	}
	if len(ts) > 136 {
		ts = ts[:136]
	}
	n := len(ts)
	keys := make([]ed25519.PublicKey, n)
	msgs := make([][]byte, n)
	sigs := make([][]byte, n)
	for i, t := range ts {
		keys[i], msgs[i], sigs[i] = t.Pub, t.Msg, t.Sig
	}
	c := map[string]interface{}{"op": "batch", "keys": hexList(pubBytes(keys)), "msgs": hexList(msgs), "sigs": hexList(sigs), "kinds": famList(ts),
		"variant": variantCase(ref.Variant{Pure: true}), "zip215": false, "hash": -1, "entropy": "uniform", "eseed": eseed, "failat": -1}
	rec.About(c)
	var vd, vz []bool
	var e1, e2 error
	pn := safe(func() {
		_, vd, e1 = ed25519.VerifyBatch(rand.New(rand.NewSource(eseed)), keys, msgs, sigs, &ed25519.Options{})
		_, vz, e2 = ed25519.VerifyBatch(rand.New(rand.NewSource(eseed+1)), keys, msgs, sigs, &ed25519.Options{ZIP215Verify: true})
	})
	rec.Eval("relation-batch", fmt.Sprintf("relation-batch/chunks=%d", (n+63)/64))
	bad := ""
	if pn != "" || e1 != nil || e2 != nil || len(vd) != n || len(vz) != n {
		bad = fmt.Sprintf("VerifyBatch failed: panic=%q err=%v/%v", pn, e1, e2)
	}
	for i := 0; i < n && bad == ""; i++ {
		if vd[i] == vz[i] {
			continue
		}
		A, okA := ref.Decode(ts[i].Pub)
		small := okA && ref.IsSmallOrder(A)
		if len(ts[i].Sig) == 64 {
			if R, okR := ref.Decode(ts[i].Sig[:32]); okR && ref.IsSmallOrder(R) {
				small = true
			}
		}
		switch {
		case vd[i] && !vz[i]:
			bad = fmt.Sprintf("batch entry %d/%d (%s) accepted in default mode but rejected in ZIP-215 mode", i, n, ts[i].Family)
		case !small:
			bad = fmt.Sprintf("batch entry %d/%d (%s): modes differ although neither key nor R has small order", i, n, ts[i].Family)
		default:
			rec.Class("relation-batch/differ-on-small-order", 1)
		}
	}
	if bad != "" {
		rec.Violate("relation-batch", bad, "relation-batch", c)
		return true
	}
	return false
}

func pubBytes(k []ed25519.PublicKey) [][]byte {
	out := make([][]byte, len(k))
	for i := range k {
		out[i] = k[i]
	}
	return out
}

func famList(ts []gen.Triple) []string {
	out := make([]string, len(ts))
	for i := range ts {
		out[i] = ts[i].Family
	}
	return out
}

// ---- workload streams ----

// tripleStream yields the constructive families.  emph selects extra weight.
type stream struct {
	cfg *Cfg
	rng *rand.Rand
	so  [][]byte // 14 small-order encodings
}

func newStream(cfg *Cfg, name string) *stream {
	return &stream{cfg: cfg, rng: cfg.rng(name), so: ref.SmallOrderEncodings()}
}

func (s *stream) garbageTriple() gen.Triple {
	rng := s.rng
	v := gen.Variant(rng, -1)
	t := gen.Triple{V: v, Family: "garbage", Msg: gen.MsgFor(rng, v)}
	switch rng.Intn(4) {
	case 0: // hostile key, honest-looking signature
		h := gen.Honest(rng, -1)
		t = h
		t.Family = "garbage"
		t.Pub, _ = gen.Garbage32(rng)
	case 1: // hostile R
		h := gen.Honest(rng, -1)
		t = h
		t.Family = "garbage"
		g, _ := gen.Garbage32(rng)
		copy(t.Sig[:32], g)
	default:
		t.Pub, _ = gen.Garbage32(rng)
		g, _ := gen.Garbage32(rng)
		t.Sig = append(g, gen.RandBytes(rng, 32)...)
		if rng.Intn(2) == 0 {
			t.Sig[63] &= 0x0f
		}
	}
	return t
}

func (s *stream) lengthTriple() gen.Triple {
	t := gen.Honest(s.rng, -1)
	l := s.rng.Intn(71)
	if l == 64 {
		l = 63
	}
	if l < 64 {
		t.Sig = t.Sig[:l]
	} else {
		t.Sig = append(t.Sig, gen.RandBytes(s.rng, l-64)...)
	}
	t.Family = "siglen"
	return t
}

// ---- C01 ----

func runC01(cfg *Cfg, rec *ev.Rec) {
	s := newStream(cfg, "c01")
	rng := s.rng
	const sub = "default-predicate"
	j := func(t gen.Triple) { judgeVerify(rec, sub, t, false, "single", 0, 0, 0) }

	// W-torsion: all 64 pairs, mixed and pure torsion
	item := 0
	reps := 1
	if cfg.thorough() {
		reps = 12
	}
	for rep := 0; rep < reps; rep++ {
		for i := 0; i < 8; i++ {
			for k := 0; k < 8; k++ {
				if !cfg.mine(item) {
					item++
					continue
				}
				item++
				t := gen.Torsion(rng, i, k, false, false, -1)
				rec.Class(fmt.Sprintf("torsion-pair/%d,%d", ref.TorsOrder(i), ref.TorsOrder(k)), 1)
				j(t)
				// pure torsion key / R (rejected in default mode)
				if rep%4 == 0 {
					j(gen.Torsion(rng, i, k, true, false, -1))
					j(gen.Torsion(rng, i, k, false, true, -1))
				}
			}
		}
	}
	// W-smallkey x W-Sbound, W-noncanonR : all rejected in default mode
	sb := gen.SBound(rng)
	for idx, S := range sb {
		if !cfg.mine(idx) {
			continue
		}
		j(gen.SmallKey(rng, s.so[rng.Intn(14)], S, rng.Intn(8), -1))
		// honest signature with S replaced by a boundary value (equation fails or S>=L)
		h := gen.Honest(rng, -1)
		copy(h.Sig[32:], ref.LEBytes(S, 32))
		h.Family = "honest+Sbound"
		j(h)
	}
	for idx, e := range s.so {
		if cfg.mine(idx) {
			j(gen.NoncanonR(rng, e, -1))
		}
	}
	// W-honest, S+kL, W-garbage, lengths
	n := cfg.n(2400, 150000)
	for i := 0; i < n; i++ {
		switch i % 8 {
		case 0, 1, 2:
			h := gen.Honest(rng, i%3)
			j(h)
			if i%16 == 0 {
				// S + L (malleability twin): must be rejected
				S := ref.LEInt(h.Sig[32:])
				S.Add(S, new(big.Int).Mul(ref.L, big.NewInt(int64(1+rng.Intn(15)))))
				if S.Cmp(gen.P2_256) < 0 {
					h2 := h.Clone()
					copy(h2.Sig[32:], ref.LEBytes(S, 32))
					h2.Family = "honest+kL"
					j(h2)
				}
			}
		case 3:
			j(gen.Torsion(rng, rng.Intn(8), rng.Intn(8), false, false, -1))
		case 4:
			j(s.garbageTriple())
		case 5:
			j(s.lengthTriple())
		case 6:
			// wrong message / wrong variant
			h := gen.Honest(rng, -1)
			if rng.Intn(2) == 0 && len(h.Msg) > 0 && !h.V.Ph {
				h.Msg = append([]byte(nil), h.Msg[:len(h.Msg)-1]...)
				h.Family = "honest+msgtrunc"
			} else {
				h = gen.ApplyPerturb(h, gen.Perturb{Where: "msg", Bit: rng.Intn(64)})
			}
			j(h)
		case 7:
			t := gen.Torsion(rng, rng.Intn(8), rng.Intn(8), false, false, -1)
			ps := gen.AllPerturbs(t)
			j(gen.ApplyPerturb(t, ps[rng.Intn(len(ps))]))
		}
	}
	// malleability sweep: S + kL for k = 1..15 on honest signatures; over the
	// run every top-byte value 0x10..0xff of the scalar half occurs
	ns := cfg.n(48, 2400)
	for i := 0; i < ns; i++ {
		h := gen.Honest(rng, i%3)
		S := ref.LEInt(h.Sig[32:])
		for k := int64(1); k <= 15; k++ {
			S2 := new(big.Int).Add(S, new(big.Int).Mul(ref.L, big.NewInt(k)))
			if S2.Cmp(gen.P2_256) >= 0 {
				break
			}
			h2 := h.Clone()
			copy(h2.Sig[32:], ref.LEBytes(S2, 32))
			h2.Family = "honest+kL"
			rec.Class(fmt.Sprintf("S+kL/topbyte/%02x", h2.Sig[63]), 1)
			j(h2)
		}
	}
	// W-perturb exhaustive for a few accepted triples
	np := cfg.n(16, 160)
	for i := 0; i < np; i++ {
		var t gen.Triple
		if i%2 == 0 {
			t = gen.Honest(rng, i%3)
		} else {
			t = gen.Torsion(rng, 1+rng.Intn(7), 1+rng.Intn(7), false, false, -1)
		}
		j(t)
		ps := gen.AllPerturbs(t)
		step := 7
		if cfg.thorough() {
			step = 1
		}
		for k := rng.Intn(step); k < len(ps); k += step {
			j(gen.ApplyPerturb(t, ps[k]))
		}
	}
}

// ---- C05 ----

func runC05(cfg *Cfg, rec *ev.Rec) {
	s := newStream(cfg, "c05")
	rng := s.rng
	const sub = "zip215-predicate"
	pick := 0
	var relPool []gen.Triple
	j := func(t gen.Triple) {
		judgeVerify(rec, sub, t, true, "single", 0, 0, 0)
		judgeRelation(rec, t)
		pick++
		if pick%3 == 0 {
			n, pos := pickShape(rng)
			judgeVerify(rec, sub, t, true, "batch", n, pos, rng.Int63())
		}
		relPool = append(relPool, t)
		if len(relPool) >= 140 {
			judgeBatchRelation(rec, relPool, rng.Int63())
			relPool = relPool[:0]
		}
	}
	// 14 x 14 product with S in {0, random < L, boundary}
	item := 0
	sb := gen.SBound(rng)
	for ki, ke := range s.so {
		for ri, re := range s.so {
			if !cfg.mine(item) {
				item++
				continue
			}
			item++
			rec.Class("so-product", 1)
			v := gen.Variant(rng, -1)
			msg := gen.MsgFor(rng, v)
			var S *big.Int
			switch (ki + ri) % 3 {
			case 0:
				S = big.NewInt(0)
			case 1:
				S = gen.RandBelow(rng, ref.L)
			default:
				S = sb[rng.Intn(len(sb))]
			}
			// R small order as given: equation [8]([S]B - [h]A - R) = [8][S]B, holds iff S = 0 mod L
			sig := append(append([]byte(nil), re...), ref.LEBytes(S, 32)...)
			j(gen.Triple{Pub: append([]byte(nil), ke...), Msg: msg, Sig: sig, V: v, Family: "so-product"})
		}
	}
	// small-order key with arbitrary S (accepted iff S < L), all torsion shifts of R
	for idx, S := range sb {
		if cfg.mine(idx) {
			j(gen.SmallKey(rng, s.so[idx%14], S, rng.Intn(8), -1))
		}
	}
	// honest key with each small-order R encoding (non-canonical ones hashed as supplied)
	for idx, e := range s.so {
		if cfg.mine(idx) {
			j(gen.NoncanonR(rng, e, -1))
			j(gen.NoncanonR(rng, e, 0))
		}
	}
	// torsion matrix, all encodings
	item = 0
	for i := 0; i < 8; i++ {
		for k := 0; k < 8; k++ {
			if cfg.mine(item) {
				j(gen.Torsion(rng, i, k, i%2 == 1 && k%3 == 0, k%2 == 1 && i%3 == 0, -1))
				j(gen.Torsion(rng, i, k, false, false, -1))
			}
			item++
		}
	}
	// structured multi-chunk batches for the relational clause: entries that
	// only ZIP-215 accepts (small-order key or R) sit in one 64-entry chunk
	// while the entry at the same relative position of the neighbouring
	// chunks is an ordinary valid one (chunk-offset arithmetic of the gates)
	for b := 0; b < cfg.n(32, 1600); b++ {
		ts := make([]gen.Triple, 136)
		for i := range ts {
			if i%5 == 4 {
				ts[i] = gen.Torsion(rng, rng.Intn(8), rng.Intn(8), false, false, 0)
			} else {
				ts[i] = gen.Honest(rng, 0)
			}
		}
		for k := 0; k < 10; k++ {
			p := rng.Intn(136)
			if rng.Intn(2) == 0 {
				ts[p] = gen.NoncanonR(rng, s.so[rng.Intn(14)], 0)
			} else {
				ts[p] = gen.SmallKey(rng, s.so[rng.Intn(14)], gen.RandBelow(rng, ref.L), rng.Intn(8), 0)
			}
		}
		judgeBatchRelation(rec, ts, rng.Int63())
	}
	n := cfg.n(2500, 150000)
	for i := 0; i < n; i++ {
		switch i % 8 {
		case 0:
			j(gen.Honest(rng, -1))
		case 1:
			j(gen.Torsion(rng, rng.Intn(8), rng.Intn(8), rng.Intn(4) == 0, rng.Intn(4) == 0, -1))
		case 2:
			S := gen.RandBelow(rng, ref.L)
			if rng.Intn(3) == 0 {
				S = sb[rng.Intn(len(sb))]
			}
			j(gen.SmallKey(rng, s.so[rng.Intn(14)], S, rng.Intn(8), -1))
		case 3:
			j(gen.NoncanonR(rng, s.so[rng.Intn(14)], -1))
		case 4:
			j(s.garbageTriple())
		case 5:
			t := gen.SmallKey(rng, s.so[rng.Intn(14)], gen.RandBelow(rng, ref.L), rng.Intn(8), -1)
			ps := gen.AllPerturbs(t)
			j(gen.ApplyPerturb(t, ps[rng.Intn(len(ps))]))
		case 6:
			t := gen.Torsion(rng, rng.Intn(8), rng.Intn(8), false, false, -1)
			ps := gen.AllPerturbs(t)
			j(gen.ApplyPerturb(t, ps[rng.Intn(len(ps))]))
		case 7:
			j(s.lengthTriple())
		}
	}
}

// ---- C04 ----

func runC04(cfg *Cfg, rec *ev.Rec) {
	s := newStream(cfg, "c04")
	rng := s.rng
	const sub = "S-admissibility"
	four := func(t gen.Triple) {
		n, pos := pickShape(rng)
		judgeVerify(rec, sub, t, false, "single", 0, 0, 0)
		judgeVerify(rec, sub, t, true, "single", 0, 0, 0)
		judgeVerify(rec, sub, t, false, "batch", n, pos, rng.Int63())
		judgeVerify(rec, sub, t, true, "batch", n, pos, rng.Int63())
	}
	rounds := cfg.n(16, 640)
	if rounds < 1 {
		rounds = 1
	}
	for r := 0; r < rounds; r++ {
		sb := gen.SBound(rng)
		for idx, S := range sb {
			if r == 0 && !cfg.mine(idx) && !cfg.thorough() {
				continue
			}
			if r > 0 && rng.Intn(6) != 0 {
				continue
			}
			// small-order key: the equation holds for every S, so the ZIP-215
			// verdict is exactly S < L
			four(gen.SmallKey(rng, s.so[rng.Intn(14)], S, rng.Intn(8), -1))
		}
	}
	// uniqueness: accepted (A, M, R, S) => S + kL and random S' rejected in all four modes
	nu := cfg.n(60, 4000)
	for i := 0; i < nu; i++ {
		var t gen.Triple
		switch i % 3 {
		case 0:
			t = gen.Honest(rng, -1)
		case 1:
			t = gen.Torsion(rng, rng.Intn(8), rng.Intn(8), false, false, -1)
		default:
			t = gen.SmallKey(rng, s.so[rng.Intn(14)], gen.RandBelow(rng, ref.L), rng.Intn(8), -1)
		}
		four(t)
		S := ref.LEInt(t.Sig[32:])
		for k := int64(1); k <= 15; k++ {
			S2 := new(big.Int).Add(S, new(big.Int).Mul(ref.L, big.NewInt(k)))
			if S2.Cmp(gen.P2_256) >= 0 {
				break
			}
			t2 := t.Clone()
			copy(t2.Sig[32:], ref.LEBytes(S2, 32))
			t2.Family = t.Family + "+kL"
			rec.Class("uniqueness/S+kL", 1)
			rec.Class(fmt.Sprintf("S+kL/topbyte/%02x", t2.Sig[63]), 1)
			if k <= 2 || rng.Intn(4) == 0 {
				four(t2)
			} else {
				judgeVerify(rec, sub, t2, true, "single", 0, 0, 0)
			}
		}
		for q := 0; q < 4; q++ {
			t2 := t.Clone()
			copy(t2.Sig[32:], gen.RandBytes(rng, 32))
			if q%2 == 0 {
				t2.Sig[63] &= 0x0f
			}
			t2.Family = t.Family + "+randS"
			rec.Class("uniqueness/randomS", 1)
			judgeVerify(rec, sub, t2, true, "single", 0, 0, 0)
			judgeVerify(rec, sub, t2, false, "single", 0, 0, 0)
		}
	}
}

// ---- C09 ----

func runC09(cfg *Cfg, rec *ev.Rec) {
	s := newStream(cfg, "c09")
	rng := s.rng
	const sub = "small-order-rejection"
	both := func(t gen.Triple) {
		judgeVerify(rec, sub, t, false, "single", 0, 0, 0)
		judgeVerify(rec, sub, t, true, "single", 0, 0, 0) // establishes that only the small-order clause differs
		n, pos := pickShape(rng)
		judgeVerify(rec, sub, t, false, "batch", n, pos, rng.Int63())
	}
	reps := 1
	if cfg.thorough() {
		reps = 40
	}
	item := 0
	for rep := 0; rep < reps; rep++ {
		// positive direction: each of the 14 strings as key and as R
		for _, e := range s.so {
			if cfg.mine(item) {
				rec.Class("so-as-key", 1)
				both(gen.SmallKey(rng, e, gen.RandBelow(rng, ref.L), 0, -1)) // honest-order R
				rec.Class("so-as-R", 1)
				both(gen.NoncanonR(rng, e, -1))
			}
			item++
		}
		// negative direction: [k]B + T for every T as key and as R, every encoding
		for i := 0; i < 8; i++ {
			for k := 0; k < 8; k++ {
				if cfg.mine(item) {
					rec.Class(fmt.Sprintf("mixed-order/%d,%d", ref.TorsOrder(i), ref.TorsOrder(k)), 1)
					both(gen.Torsion(rng, i, k, false, false, -1))
				}
				item++
			}
		}
		// pure torsion on one side only
		for i := 0; i < 8; i++ {
			if cfg.mine(item) {
				both(gen.Torsion(rng, i, rng.Intn(8), true, false, -1))
				both(gen.Torsion(rng, rng.Intn(8), i, false, true, -1))
			}
			item++
		}
	}
	// structured multi-chunk batches (default mode): entries that only ZIP-215
	// accepts - the same small-order key or R bytes - at the end of one 64-entry
	// chunk and at the head of the next, everything else honest; every entry
	// must get the verdict of single verification
	for b := 0; b < cfg.n(24, 1200); b++ {
		bt := &Batch{V: ref.Variant{Pure: true}, Zip: false, Hash: -1, EKind: "uniform", ESeed: rng.Int63(), FailAt: -1}
		nn := 136
		var so gen.Triple
		if rng.Intn(2) == 0 {
			so = gen.SmallKey(rng, s.so[rng.Intn(14)], gen.RandBelow(rng, ref.L), rng.Intn(8), 0)
		} else {
			so = gen.NoncanonR(rng, s.so[rng.Intn(14)], 0)
		}
		base := []int{63, 127, 60, 124}[rng.Intn(4)]
		cnt := 2 + rng.Intn(7)
		for i := 0; i < nn; i++ {
			t := gen.Honest(rng, 0)
			kind := "good-honest"
			if i >= base && i < base+cnt {
				// same key (or R) bytes, fresh valid-under-ZIP-215 signature each
				if len(so.Tags) > 0 && so.Family == "smallkey" {
					t = gen.SmallKey(rng, so.Pub, gen.RandBelow(rng, ref.L), rng.Intn(8), 0)
				} else {
					t = so.Clone()
				}
				kind = "zip-only(run)"
			}
			bt.Keys = append(bt.Keys, t.Pub)
			bt.Msgs = append(bt.Msgs, t.Msg)
			bt.Sigs = append(bt.Sigs, t.Sig)
			bt.Kinds = append(bt.Kinds, kind)
		}
		rec.Class("structured-batch/small-order-across-chunk-boundary", 1)
		judgeBatch(rec, bt)
	}
	n := cfg.n(600, 40000)
	for i := 0; i < n; i++ {
		switch i % 4 {
		case 0:
			both(s.garbageTriple())
		case 1:
			both(gen.Torsion(rng, 1+rng.Intn(7), 1+rng.Intn(7), false, false, -1))
		case 2:
			// tiny multiples: [k]B + T with small k (close to torsion but not small order)
			k := big.NewInt(int64(1 + rng.Intn(16)))
			A := gen.NewKeyPoint(rng, k, rng.Intn(8), -1)
			r := gen.RandScalar(rng)
			R := gen.NewKeyPoint(rng, r, rng.Intn(8), -1)
			v := gen.Variant(rng, -1)
			msg := gen.MsgFor(rng, v)
			both(gen.Triple{Pub: A.Enc, Msg: msg, Sig: ref.SignWith(k, r, A.Enc, R.Enc, msg, v), V: v, Family: "tiny-k"})
		case 3:
			both(gen.Honest(rng, -1))
		}
	}
}
