package main

import (
	"bytes"
	"crypto"
	"fmt"
	"io"
	"math/rand"

	"github.com/oasisprotocol/ed25519"
	"github.com/oasisprotocol/ed25519/extra/x25519"
	"github.com/oasisprotocol/ed25519/verifh/ev"
	"github.com/oasisprotocol/ed25519/verifh/gen"
	"github.com/oasisprotocol/ed25519/verifh/ref"
)

func init() {
	monitors["C13"] = runC13
	replayers["observe"] = func(rec *ev.Rec, c map[string]interface{}) bool {
		oc := &obsCall{Op: str(c, "obs_op"), Hash: intf(c, "hash"), Ctx: string(hexf(c, "ctx")), Zip: boolf(c, "zip215"), Alias: str(c, "alias"), ESeed: int64(intf(c, "eseed"))}
		args, _ := c["args"].([]interface{})
		for _, a := range args {
			if a == nil {
				oc.Args = append(oc.Args, nil)
			} else {
				s, _ := a.(string)
				b := ev.UnHex(s)
				if b == nil {
					b = []byte{}
				}
				oc.Args = append(oc.Args, b)
			}
		}
		if x, ok := c["shape"].([]interface{}); ok {
			for _, v := range x {
				f, _ := v.(float64)
				oc.Shape = append(oc.Shape, int(f))
			}
		}
		return observe(rec, oc)
	}
}

// spare capacity behind every argument: large enough that an append of a
// whole key or signature into the caller's backing array stays inside it
const canaryLen = 80

// guarded argument: a view into a backing array with canary bytes after
// (spare capacity) and before it.
type guarded struct {
	backing []byte
	view    []byte
	snap    []byte
}

func guard(b []byte) *guarded {
	if b == nil {
		return &guarded{}
	}
	g := &guarded{backing: make([]byte, canaryLen+len(b)+canaryLen)}
	for i := range g.backing {
		g.backing[i] = 0xC3
	}
	copy(g.backing[canaryLen:], b)
	g.view = g.backing[canaryLen : canaryLen+len(b)] // cap extends over the trailing canary
	g.snap = append([]byte(nil), g.backing...)
	return g
}

func (g *guarded) intact() bool { return bytes.Equal(g.backing, g.snap) }

// obsCall is one API call with hostile argument shapes.
type obsCall struct {
	Op    string
	Args  [][]byte // flat list; meaning depends on Op
	Shape []int    // for batch: number of keys, msgs, sigs
	Hash  int
	Ctx   string
	Zip   bool
	Alias string // "", "key=sig", "msg-in-sig", "scalar=point"
	ESeed int64
}

func (oc *obsCall) toCase() map[string]interface{} {
	return map[string]interface{}{"op": "observe", "obs_op": oc.Op, "args": hexList(oc.Args), "shape": oc.Shape, "hash": oc.Hash,
		"ctx": ev.Hex([]byte(oc.Ctx)), "zip215": oc.Zip, "alias": oc.Alias, "eseed": oc.ESeed}
}

// observe executes the call with guarded arguments; a panic outside the
// documented set, a modified argument (including spare capacity), a modified
// exported base point, or an undocumented VerifyBatch error is a violation.
func observe(rec *ev.Rec, oc *obsCall) bool {
	c := oc.toCase()
	rec.About(c)
	gs := make([]*guarded, len(oc.Args))
	for i, a := range oc.Args {
		gs[i] = guard(a)
	}
	// aliasing: make two arguments share one backing array
	switch oc.Alias {
	case "key=sig", "scalar=point":
		if len(gs) >= 2 && gs[0].view != nil && gs[1].view != nil {
			n := len(gs[0].view)
			if len(gs[1].view) < n {
				n = len(gs[1].view)
			}
			gs[0].view = gs[1].view[:n]
			gs[0].backing, gs[0].snap = gs[1].backing, gs[1].snap
		}
	case "msg-in-sig":
		if len(gs) >= 3 && gs[2].view != nil && len(gs[2].view) >= 2 {
			gs[1].view = gs[2].view[1 : len(gs[2].view)-1]
			gs[1].backing, gs[1].snap = gs[2].backing, gs[2].snap
		}
	}
	arg := func(i int) []byte {
		if i < len(gs) {
			return gs[i].view
		}
		return nil
	}
	opts := &ed25519.Options{Hash: crypto.Hash(oc.Hash), Context: oc.Ctx, ZIP215Verify: oc.Zip}
	ctxLong := len(oc.Ctx) > 255
	hashOK := oc.Hash == 0 || crypto.Hash(oc.Hash) == crypto.SHA512
	isPh := crypto.Hash(oc.Hash) == crypto.SHA512
	baseSnap := append([]byte(nil), x25519.Basepoint...)

	allowedPanic := false
	bad := ""
	var pn string
	switch oc.Op {
	case "Sign":
		allowedPanic = len(arg(0)) != 64
		pn = safe(func() { _ = ed25519.Sign(arg(0), arg(1)) })
	case "PrivateKey.Sign":
		// errors (not panics) for bad options; panic only for a wrong-length key
		allowedPanic = len(arg(0)) != 64 && !ctxLong && hashOK && !(isPh && len(arg(1)) != 64)
		pn = safe(func() {
			s, err := ed25519.PrivateKey(arg(0)).Sign(nil, arg(1), opts)
			if (ctxLong || !hashOK || (isPh && len(arg(1)) != 64)) && (err == nil || s != nil) {
				bad = "PrivateKey.Sign accepted options it must refuse with an error"
			}
		})
	case "Verify":
		allowedPanic = len(arg(0)) != 32
		pn = safe(func() { _ = ed25519.Verify(arg(0), arg(1), arg(2)) })
	case "VerifyWithOptions":
		allowedPanic = len(arg(0)) != 32 || ctxLong || !hashOK || (isPh && len(arg(1)) != 64)
		pn = safe(func() { _ = ed25519.VerifyWithOptions(arg(0), arg(1), arg(2), opts) })
	case "NewKeyFromSeed":
		allowedPanic = len(arg(0)) != 32
		pn = safe(func() { _ = ed25519.NewKeyFromSeed(arg(0)) })
	case "X25519":
		pn = safe(func() {
			out, err := x25519.X25519(arg(0), arg(1))
			if (len(arg(0)) != 32 || len(arg(1)) != 32) && (err == nil || out != nil) {
				bad = "X25519 accepted a wrong-length argument"
			}
		})
	case "X25519-base":
		pn = safe(func() {
			out, err := x25519.X25519(arg(0), x25519.Basepoint)
			if len(arg(0)) != 32 && (err == nil || out != nil) {
				bad = "X25519 accepted a wrong-length scalar on the base-point path"
			}
		})
	case "GenerateKey":
		pn = safe(func() { _, _, _ = ed25519.GenerateKey(bytes.NewReader(arg(0))) })
	case "Conversions":
		// only well-formed lengths (accessors / conversions on malformed keys are out of scope)
		if len(arg(0)) == 64 && len(arg(1)) == 32 {
			pn = safe(func() {
				_ = x25519.EdPrivateKeyToX25519(arg(0))
				_, _ = x25519.EdPublicKeyToX25519(arg(1))
				k := ed25519.PrivateKey(arg(0))
				_ = k.Public()
				_ = k.Seed()
				_ = k.Equal(ed25519.PrivateKey(arg(1)))
				_ = ed25519.PublicKey(arg(1)).Equal(k)
			})
		}
	case "VerifyBatch":
		nk, nm, ns := oc.Shape[0], oc.Shape[1], oc.Shape[2]
		keys := make([]ed25519.PublicKey, nk)
		msgs := make([][]byte, nm)
		sigs := make([][]byte, ns)
		for i := 0; i < nk; i++ {
			keys[i] = arg(i)
		}
		for i := 0; i < nm; i++ {
			msgs[i] = arg(nk + i)
		}
		for i := 0; i < ns; i++ {
			sigs[i] = arg(nk + nm + i)
		}
		pn = safe(func() {
			ok, valid, err := ed25519.VerifyBatch(entropyFor(oc.ESeed), keys, msgs, sigs, opts)
			mism := nk != nm || nm != ns
			if (mism || ctxLong) != (err != nil) {
				bad = fmt.Sprintf("VerifyBatch err=%v with counts (%d,%d,%d), context length %d", err, nk, nm, ns, len(oc.Ctx))
			} else if err == nil && len(valid) != nk {
				bad = "result vector length"
			} else if err != nil && ok {
				bad = "error together with ok=true"
			}
		})
	}
	rec.Eval("observe/"+oc.Op, "alias/"+oc.Alias)
	if pn != "" {
		if allowedPanic {
			rec.Class("documented-panic/"+oc.Op, 1)
		} else {
			bad = "undocumented panic: " + pn
		}
	}
	if bad == "" {
		for i, g := range gs {
			if !g.intact() {
				bad = fmt.Sprintf("argument %d (or its spare capacity) was modified by the call", i)
				break
			}
		}
	}
	if bad == "" && !bytes.Equal(baseSnap, x25519.Basepoint) {
		bad = "exported X25519 base point modified"
	}
	parts := [][]byte{[]byte(oc.Op), []byte(oc.Alias), []byte(fmt.Sprint(oc.Hash, len(oc.Ctx), oc.Zip, oc.Shape))}
	for i := 0; i < len(oc.Args) && i < 6; i++ {
		parts = append(parts, oc.Args[i])
	}
	rec.Nontrivial(parts...)
	if bad != "" {
		rec.Violate("panics-and-mutation", oc.Op+": "+bad, "observe/"+oc.Op, c)
		return true
	}
	if pn != "" {
		rec.Sample(map[string]interface{}{"op": oc.Op, "arg_lens": argLens(oc.Args), "documented_panic": pn})
	}
	return false
}

func argLens(a [][]byte) []int {
	out := make([]int, 0, len(a))
	for i, x := range a {
		if i >= 8 {
			break
		}
		if x == nil {
			out = append(out, -1)
		} else {
			out = append(out, len(x))
		}
	}
	return out
}

// hostileLen picks lengths 0..70 with emphasis on the sizes around 32/64.
func hostileLen(rng *rand.Rand, good int) int {
	switch rng.Intn(6) {
	case 0:
		return good
	case 1:
		return good - 1
	case 2:
		return good + 1
	case 3:
		return 0
	}
	return rng.Intn(71)
}

func maybeNil(rng *rand.Rand, b []byte) []byte {
	if len(b) == 0 && rng.Intn(2) == 0 {
		return nil
	}
	return b
}

func runC13(cfg *Cfg, rec *ev.Rec) {
	rng := cfg.rng("c13")
	hashes := []int{0, 0, 0, int(crypto.SHA512), int(crypto.SHA512), int(crypto.SHA256), int(crypto.SHA384), 99}
	ctxs := func() string {
		switch rng.Intn(8) {
		case 0:
			return string(gen.RandBytes(rng, 255))
		case 1:
			return string(gen.RandBytes(rng, 256))
		case 2:
			return string(gen.RandBytes(rng, 300+rng.Intn(1000)))
		case 3, 4:
			return string(gen.RandBytes(rng, 1+rng.Intn(40)))
		}
		return ""
	}
	aliases := []string{"", "", "", "key=sig", "msg-in-sig"}
	// valid-looking material so that deep paths run (decode, small-order test, hashing ...)
	mk := func() (seed, priv, pub, msg, sig []byte, v ref.Variant) {
		v = gen.Variant(rng, -1)
		seed = gen.Seed(rng)
		msg = gen.MsgFor(rng, v)
		pub, sig = ref.Sign(seed, msg, v)
		priv = append(append([]byte(nil), seed...), pub...)
		return
	}
	// deterministic length sweep 0..70 for every single-argument position
	item := 0
	for l := 0; l <= 70; l++ {
		if cfg.mine(item) {
			_, priv, pub, msg, sig, _ := mk()
			observe(rec, &obsCall{Op: "Sign", Args: [][]byte{gen.RandBytes(rng, l), msg}})
			observe(rec, &obsCall{Op: "NewKeyFromSeed", Args: [][]byte{gen.RandBytes(rng, l)}})
			observe(rec, &obsCall{Op: "Verify", Args: [][]byte{gen.RandBytes(rng, l), msg, sig}})
			observe(rec, &obsCall{Op: "Verify", Args: [][]byte{pub, msg, append([]byte(nil), append(sig, gen.RandBytes(rng, 8)...)[:l]...)}})
			observe(rec, &obsCall{Op: "VerifyWithOptions", Args: [][]byte{pub, gen.RandBytes(rng, l), sig}, Hash: int(crypto.SHA512)})
			observe(rec, &obsCall{Op: "VerifyWithOptions", Args: [][]byte{pub, msg, gen.RandBytes(rng, l)}, Zip: true})
			observe(rec, &obsCall{Op: "X25519", Args: [][]byte{gen.RandBytes(rng, l), gen.RandBytes(rng, 32)}})
			observe(rec, &obsCall{Op: "X25519", Args: [][]byte{gen.RandBytes(rng, 32), gen.RandBytes(rng, l)}})
			observe(rec, &obsCall{Op: "X25519-base", Args: [][]byte{gen.RandBytes(rng, l)}})
			observe(rec, &obsCall{Op: "GenerateKey", Args: [][]byte{gen.RandBytes(rng, l)}})
			observe(rec, &obsCall{Op: "PrivateKey.Sign", Args: [][]byte{priv, gen.RandBytes(rng, l)}, Hash: int(crypto.SHA512)})
			observe(rec, &obsCall{Op: "PrivateKey.Sign", Args: [][]byte{gen.RandBytes(rng, l), msg}})
			// batch with one entry of this length at a random position
			n := []int{3, 4, 5, 68}[rng.Intn(4)]
			oc := batchObs(rng, n, 0, "")
			which := rng.Intn(2)
			pos := rng.Intn(n)
			if which == 0 {
				oc.Args[pos] = maybeNil(rng, gen.RandBytes(rng, l))
			} else {
				oc.Args[2*n+pos] = maybeNil(rng, gen.RandBytes(rng, l))
			}
			observe(rec, oc)
		}
		item++
	}
	n := cfg.n(24000, 450000)
	for i := 0; i < n; i++ {
		_, priv, pub, msg, sig, v := mk()
		h := hashes[rng.Intn(len(hashes))]
		if v.Ph && rng.Intn(2) == 0 {
			h = int(crypto.SHA512)
		}
		ctx := ctxs()
		if !v.Pure && rng.Intn(2) == 0 {
			ctx = string(v.Ctx)
		}
		al := aliases[rng.Intn(len(aliases))]
		// hostile content for the decode / small-order paths
		if rng.Intn(3) == 0 {
			g, _ := gen.Garbage32(rng)
			if rng.Intn(2) == 0 {
				pub = g
			} else {
				copy(sig[:32], g)
			}
		}
		switch i % 10 {
		case 0:
			observe(rec, &obsCall{Op: "Verify", Args: [][]byte{maybeNil(rng, pub[:hostileLen(rng, 32)%33]), msg, maybeNil(rng, sig[:hostileLen(rng, 64)%65])}, Alias: al})
		case 1, 2:
			observe(rec, &obsCall{Op: "VerifyWithOptions", Args: [][]byte{pub[:hostileLen(rng, 32)%33], msg, sig[:hostileLen(rng, 64)%65]}, Hash: h, Ctx: ctx, Zip: rng.Intn(2) == 0, Alias: al})
		case 3:
			observe(rec, &obsCall{Op: "Sign", Args: [][]byte{priv[:hostileLen(rng, 64)%65], msg}})
		case 4:
			observe(rec, &obsCall{Op: "PrivateKey.Sign", Args: [][]byte{priv[:hostileLen(rng, 64)%65], msg}, Hash: h, Ctx: ctx})
		case 5:
			sc, pt := gen.RandBytes(rng, hostileLen(rng, 32)), gen.RandBytes(rng, hostileLen(rng, 32))
			a := ""
			if rng.Intn(4) == 0 {
				a = "scalar=point"
			}
			observe(rec, &obsCall{Op: "X25519", Args: [][]byte{maybeNil(rng, sc), maybeNil(rng, pt)}, Alias: a})
		case 6:
			observe(rec, &obsCall{Op: "Conversions", Args: [][]byte{priv, pub}})
		default:
			sizes := []int{0, 1, 3, 4, 5, 8, 64, 65, 68, 70, 130}
			bn := sizes[rng.Intn(len(sizes))]
			if !cfg.thorough() && bn > 8 && rng.Intn(3) != 0 {
				bn = sizes[rng.Intn(6)]
			}
			oc := batchObs(rng, bn, h, ctx)
			oc.Zip = rng.Intn(2) == 0
			// damage a few entries
			for k := 0; k < rng.Intn(4) && bn > 0; k++ {
				pos := rng.Intn(bn)
				switch rng.Intn(6) {
				case 0:
					oc.Args[pos] = maybeNil(rng, gen.RandBytes(rng, hostileLen(rng, 32)))
				case 1:
					oc.Args[2*bn+pos] = maybeNil(rng, gen.RandBytes(rng, hostileLen(rng, 64)))
				case 2:
					oc.Args[bn+pos] = maybeNil(rng, gen.RandBytes(rng, hostileLen(rng, 64)))
				case 3:
					g, _ := gen.Garbage32(rng)
					oc.Args[pos] = g
				case 4:
					g, _ := gen.Garbage32(rng)
					s := append([]byte(nil), oc.Args[2*bn+pos]...)
					if len(s) == 64 {
						copy(s[:32], g)
						oc.Args[2*bn+pos] = s
					}
				case 5:
					oc.Args[2*bn+pos] = nil
				}
			}
			if rng.Intn(12) == 0 {
				// unequal counts
				oc.Shape[rng.Intn(3)] += 1 - 2*rng.Intn(2)
				fixShape(rng, oc)
			}
			observe(rec, oc)
		}
	}
}

// batchObs builds an n-entry batch of valid pure entries as a flat argument list.
func batchObs(rng *rand.Rand, n int, h int, ctx string) *obsCall {
	oc := &obsCall{Op: "VerifyBatch", Shape: []int{n, n, n}, Hash: h, Ctx: ctx, ESeed: rng.Int63()}
	v := ref.Variant{Pure: true}
	if h == int(crypto.SHA512) {
		v = ref.Variant{Ph: true, Ctx: []byte(ctx)}
	} else if ctx != "" {
		v = ref.Variant{Ctx: []byte(ctx)}
	}
	if len(ctx) > 255 {
		v = ref.Variant{Pure: true}
	}
	base := companionsFor(v, 3)
	keys := make([][]byte, n)
	msgs := make([][]byte, n)
	sigs := make([][]byte, n)
	for i := 0; i < n; i++ {
		b := base[i%3]
		keys[i], msgs[i], sigs[i] = append([]byte(nil), b.Pub...), append([]byte(nil), b.Msg...), append([]byte(nil), b.Sig...)
	}
	oc.Args = append(append(append(oc.Args, keys...), msgs...), sigs...)
	return oc
}

// fixShape re-lays the flat argument list after a count change.
func fixShape(rng *rand.Rand, oc *obsCall) {
	for i := range oc.Shape {
		if oc.Shape[i] < 0 {
			oc.Shape[i] = 0
		}
	}
	total := oc.Shape[0] + oc.Shape[1] + oc.Shape[2]
	for len(oc.Args) < total {
		oc.Args = append(oc.Args, gen.RandBytes(rng, 32))
	}
	oc.Args = oc.Args[:total]
}

// constReader is a legal, never-failing entropy source that returns one byte
// value for ever (all-zero randomisers are the hostile case).
type constReader byte

func (c constReader) Read(p []byte) (int, error) {
	for i := range p {
		p[i] = byte(c)
	}
	return len(p), nil
}

// entropyFor derives the entropy source of a recorded VerifyBatch call from
// its seed: one call in eight gets all-zero bytes, one in eight all-ones, the
// others a PRNG stream.  Results are not judged here (C06 does that), only
// panics, errors and the shape of the result.
func entropyFor(seed int64) io.Reader {
	switch uint64(seed) % 8 {
	case 0:
		return constReader(0)
	case 1:
		return constReader(0xff)
	}
	return rand.New(rand.NewSource(seed))
}
