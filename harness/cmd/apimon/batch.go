package main

import (
	"crypto"
	"errors"
	"fmt"
	"io"
	"math/big"
	"math/rand"

	"github.com/oasisprotocol/ed25519"
	"github.com/oasisprotocol/ed25519/verifh/ev"
	"github.com/oasisprotocol/ed25519/verifh/gen"
	"github.com/oasisprotocol/ed25519/verifh/ref"
)

func init() {
	monitors["C06"] = runC06
	replayers["batch"] = func(rec *ev.Rec, c map[string]interface{}) bool {
		b := &Batch{V: caseVariant(c["variant"]), Zip: boolf(c, "zip215"), Hash: intf(c, "hash"), EKind: str(c, "entropy"), ESeed: int64(intf(c, "eseed")), FailAt: intf(c, "failat")}
		dec := func(k string) [][]byte {
			var out [][]byte
			arr, _ := c[k].([]interface{})
			for _, x := range arr {
				if x == nil {
					out = append(out, nil)
					continue
				}
				s, _ := x.(string)
				out = append(out, ev.UnHex(s))
			}
			return out
		}
		b.Keys, b.Msgs, b.Sigs = dec("keys"), dec("msgs"), dec("sigs")
		kinds, _ := c["kinds"].([]interface{})
		for _, k := range kinds {
			s, _ := k.(string)
			b.Kinds = append(b.Kinds, s)
		}
		for len(b.Kinds) < len(b.Keys) {
			b.Kinds = append(b.Kinds, "?")
		}
		return judgeBatch(rec, b)
	}
}

// Batch is one VerifyBatch call.
type Batch struct {
	Keys, Msgs, Sigs [][]byte
	Kinds            []string // provenance of each entry
	V                ref.Variant
	Zip              bool
	Hash             int // -1: derive from V; otherwise an explicit (possibly unsupported) crypto.Hash
	EKind            string
	ESeed            int64
	FailAt           int // >= 0: the entropy reader fails after this many bytes
}

var errInjected = errors.New("injected entropy failure")

type failingReader struct {
	r    io.Reader
	left int
}

func (f *failingReader) Read(p []byte) (int, error) {
	if f.left <= 0 {
		return 0, errInjected
	}
	if len(p) > f.left {
		p = p[:f.left]
	}
	n, err := f.r.Read(p)
	f.left -= n
	return n, err
}

func (b *Batch) opts() *ed25519.Options {
	o := libOpts(b.V, b.Zip)
	if b.Hash >= 0 {
		o.Hash = crypto.Hash(b.Hash)
	}
	return o
}

func hexList(x [][]byte) []interface{} {
	out := make([]interface{}, len(x))
	for i, b := range x {
		if b == nil {
			out[i] = nil
		} else {
			out[i] = ev.Hex(b)
		}
	}
	return out
}

func (b *Batch) toCase() map[string]interface{} {
	return map[string]interface{}{"op": "batch", "keys": hexList(b.Keys), "msgs": hexList(b.Msgs), "sigs": hexList(b.Sigs), "kinds": b.Kinds,
		"variant": variantCase(b.V), "zip215": b.Zip, "hash": b.Hash, "entropy": b.EKind, "eseed": b.ESeed, "failat": b.FailAt}
}

// entropyNeeded = bytes VerifyBatch has to draw for n entries.
func entropyNeeded(n int) int {
	need := 0
	for n >= 4 {
		c := 64
		if n < 64 {
			c = n
		}
		need += 16 * c
		n -= c
	}
	return need
}

// judgeBatch executes the batch and compares every entry with the observed
// single verification of that entry under the same options and with the
// model; checks the summary flag, vector length and error contract.
func judgeBatch(rec *ev.Rec, b *Batch) bool {
	c := b.toCase()
	rec.About(c)
	n := len(b.Keys)
	o := b.opts()
	supported := o.Hash == crypto.Hash(0) || o.Hash == crypto.SHA512
	vEff := b.V
	if b.Hash >= 0 {
		vEff.Ph = o.Hash == crypto.SHA512
		if !vEff.Ph && len(vEff.Ctx) == 0 {
			vEff.Pure = true
		} else {
			vEff.Pure = false
		}
	}
	// expected per-entry results
	want := make([]bool, n)
	modelWant := make([]bool, n)
	nValid := 0
	oracleSplit := -1
	for i := 0; i < n; i++ {
		if !supported || len(b.Keys[i]) != 32 || len(b.Sigs[i]) != 64 || (vEff.Ph && len(b.Msgs[i]) != 64) {
			want[i], modelWant[i] = false, false
			continue
		}
		var single bool
		pn := safe(func() { single = ed25519.VerifyWithOptions(b.Keys[i], b.Msgs[i], b.Sigs[i], o) })
		want[i] = single && pn == ""
		modelWant[i] = ref.Verify(b.Keys[i], b.Msgs[i], b.Sigs[i], vEff, b.Zip)
		if want[i] != modelWant[i] && oracleSplit < 0 {
			oracleSplit = i
		}
		if want[i] {
			nValid++
		}
	}
	keys := make([]ed25519.PublicKey, n)
	for i := range keys {
		keys[i] = b.Keys[i]
	}
	var rd io.Reader = entropy(b.EKind, b.ESeed)
	if b.FailAt >= 0 {
		rd = &failingReader{rd, b.FailAt}
	}
	var ok bool
	var valid []bool
	var err error
	pn := safe(func() { ok, valid, err = ed25519.VerifyBatch(rd, keys, b.Msgs, b.Sigs, o) })
	bad := ""
	switch {
	case pn != "":
		bad = "VerifyBatch panicked: " + pn
	case b.FailAt >= 0 && b.FailAt < entropyNeeded(n):
		if err == nil {
			bad = fmt.Sprintf("entropy source failed after %d of %d bytes but no error was returned", b.FailAt, entropyNeeded(n))
		} else if ok {
			bad = "error returned together with ok=true"
		}
	case err != nil:
		bad = "unexpected error: " + err.Error()
	case len(valid) != n:
		bad = fmt.Sprintf("result vector has %d elements for %d entries", len(valid), n)
	default:
		all := true
		for i := range valid {
			if valid[i] != want[i] {
				bad = fmt.Sprintf("entry %d/%d (%s): batch=%v single=%v model=%v", i, n, b.Kinds[i], valid[i], want[i], modelWant[i])
				break
			}
			all = all && valid[i]
		}
		if bad == "" && ok != all {
			bad = fmt.Sprintf("summary flag %v but conjunction of entries %v", ok, all)
		}
		if bad == "" && oracleSplit >= 0 {
			bad = fmt.Sprintf("entry %d (%s): single verification %v but model %v", oracleSplit, b.Kinds[oracleSplit], want[oracleSplit], modelWant[oracleSplit])
		}
	}
	chunks := (n + 63) / 64
	rec.Eval(fmt.Sprintf("batch/n=%s", batchSizeClass(n)), fmt.Sprintf("batch/chunks=%d", chunks), "batch/entropy="+b.EKind, "batch/variant="+gen.VariantName(vEff))
	rec.Class("batch-entries", int64(n))
	nbad := n - nValid
	switch {
	case nbad == 0:
		rec.Class("batch/all-valid", 1)
	case nbad == 1:
		rec.Class("batch/one-bad", 1)
	case nbad == n:
		rec.Class("batch/all-bad", 1)
	default:
		rec.Class("batch/several-bad", 1)
	}
	for i, k := range b.Kinds {
		rec.Class("entry-kind/"+k, 1)
		if !want[i] {
			rec.Class(fmt.Sprintf("bad-in-chunk/%d", i/64), 1)
			if n >= 4 && i >= (n/64)*64 && n%64 < 4 && n%64 != 0 {
				rec.Class("bad-in-remainder", 1)
			}
		}
	}
	if !supported {
		rec.Class("batch/unsupported-hash", 1)
	}
	if b.FailAt >= 0 {
		rec.Class("batch/failing-reader", 1)
	}
	if n > 0 {
		parts := [][]byte{[]byte(fmt.Sprint(n, b.Zip, b.Hash, b.EKind, b.ESeed, b.FailAt))}
		for i := 0; i < n && i < 8; i++ {
			parts = append(parts, b.Keys[i], b.Sigs[i])
		}
		rec.Nontrivial(parts...)
	}
	if bad != "" {
		rec.Violate("batch-equals-single", bad, fmt.Sprintf("batch/n=%d", n), c)
		return true
	}
	if nbad > 0 && nbad < n {
		var badpos []int
		for i := range want {
			if !want[i] && len(badpos) < 10 {
				badpos = append(badpos, i)
			}
		}
		rec.Sample(map[string]interface{}{"n": n, "bad_positions": badpos, "zip215": b.Zip, "variant": gen.VariantName(vEff), "entropy": b.EKind, "summary": ok})
	}
	return false
}

func batchSizeClass(n int) string {
	switch {
	case n <= 3:
		return fmt.Sprint(n)
	case n == 4:
		return "4"
	case n < 63:
		return "5-62"
	case n <= 65:
		return fmt.Sprint(n)
	case n < 67:
		return "66"
	case n <= 69:
		return fmt.Sprint(n)
	case n < 127:
		return "70-126"
	case n <= 131:
		return fmt.Sprint(n)
	case n < 191:
		return "132-190"
	}
	return ">=191"
}

var batchSizes = []int{0, 1, 2, 3, 4, 5, 6, 7, 8, 9, 31, 32, 33, 62, 63, 64, 65, 66, 67, 68, 69, 70, 126, 127, 128, 129, 130, 131, 132, 133, 191, 192, 193, 194, 200}

var badKinds = []string{"wrong-msg", "flip-R", "flip-S", "flip-key", "S+L", "so-key", "so-R", "undecodable-key", "undecodable-R",
	"short-key", "long-key", "nil-key", "short-sig", "long-sig", "long-sig-zeropad", "nil-sig", "empty-sig", "topbits-S", "zip-only-smallkey", "zip-only-R", "S=L-smallkey", "wrong-prehash-len", "other-variant-sig", "ph-sig-over-wrong-len"}

// entry factory: a few model-signed honest triples per batch variant are
// recycled (signing with the model costs ~1 ms).
type entryPool struct {
	rng  *rand.Rand
	v    ref.Variant
	good []gen.Triple
	so   [][]byte
}

func newEntryPool(rng *rand.Rand, v ref.Variant, k int) *entryPool {
	p := &entryPool{rng: rng, v: v, so: ref.SmallOrderEncodings()}
	for i := 0; i < k; i++ {
		var t gen.Triple
		vv := v
		if i%3 == 2 {
			// mixed-order members
			a, r := gen.RandScalar(rng), gen.RandScalar(rng)
			A := gen.NewKeyPoint(rng, a, rng.Intn(8), -1)
			R := gen.NewKeyPoint(rng, r, rng.Intn(8), -1)
			msg := gen.MsgFor(rng, vv)
			t = gen.Triple{Pub: A.Enc, Msg: msg, Sig: ref.SignWith(a, r, A.Enc, R.Enc, msg, vv), V: vv, Family: "good-mixed-order"}
		} else {
			seed := gen.Seed(rng)
			msg := gen.MsgFor(rng, vv)
			pub, sig := ref.Sign(seed, msg, vv)
			t = gen.Triple{Pub: pub, Msg: msg, Sig: sig, V: vv, Family: "good-honest"}
		}
		p.good = append(p.good, t)
	}
	return p
}

func (p *entryPool) goodEntry() gen.Triple { return p.good[p.rng.Intn(len(p.good))].Clone() }

func (p *entryPool) badEntry(kind string) gen.Triple {
	rng := p.rng
	t := p.goodEntry()
	t.Family = kind
	switch kind {
	case "wrong-msg":
		if len(t.Msg) == 0 {
			t.Msg = []byte{1}
		} else {
			t.Msg[rng.Intn(len(t.Msg))] ^= 1 << uint(rng.Intn(8))
		}
	case "flip-R":
		t.Sig[rng.Intn(32)] ^= 1 << uint(rng.Intn(8))
	case "flip-S":
		t.Sig[32+rng.Intn(32)] ^= 1 << uint(rng.Intn(8))
	case "flip-key":
		t.Pub[rng.Intn(32)] ^= 1 << uint(rng.Intn(8))
	case "S+L":
		S := ref.LEInt(t.Sig[32:])
		S.Add(S, ref.L)
		copy(t.Sig[32:], ref.LEBytes(S, 32))
	case "topbits-S":
		t.Sig[63] |= []byte{0x20, 0x40, 0x80, 0xe0}[rng.Intn(4)]
	case "so-key":
		t.Pub = append([]byte(nil), p.so[rng.Intn(14)]...)
	case "so-R":
		copy(t.Sig[:32], p.so[rng.Intn(14)])
	case "undecodable-key":
		for {
			g, _ := gen.Garbage32(rng)
			if _, ok := ref.Decode(g); !ok {
				t.Pub = g
				break
			}
		}
	case "undecodable-R":
		for {
			g, _ := gen.Garbage32(rng)
			if _, ok := ref.Decode(g); !ok {
				copy(t.Sig[:32], g)
				break
			}
		}
	case "short-key":
		t.Pub = t.Pub[:rng.Intn(32)]
	case "long-key":
		t.Pub = append(t.Pub, gen.RandBytes(rng, 1+rng.Intn(33))...)
	case "nil-key":
		t.Pub = nil
	case "short-sig":
		t.Sig = t.Sig[:1+rng.Intn(63)]
	case "long-sig":
		t.Sig = append(t.Sig, gen.RandBytes(rng, 1+rng.Intn(10))...)
	case "long-sig-zeropad":
		// the first 64 bytes are a valid signature, the surplus is zero: the
		// scalar half read as a longer little-endian string has the same value
		t.Sig = append(t.Sig, make([]byte, 1+rng.Intn(32))...)
	case "nil-sig":
		t.Sig = nil
	case "empty-sig":
		t.Sig = []byte{}
	case "zip-only-smallkey": // valid in ZIP-215 mode only
		t = gen.SmallKey(rng, p.so[rng.Intn(14)], gen.RandBelow(rng, ref.L), rng.Intn(8), 0)
		t = p.revariant(t, func(msg []byte) gen.Triple {
			S := gen.RandBelow(rng, ref.L)
			R := gen.NewKeyPoint(rng, S, rng.Intn(8), -1)
			return gen.Triple{Pub: append([]byte(nil), p.so[rng.Intn(14)]...), Msg: msg, Sig: append(append([]byte(nil), R.Enc...), ref.LEBytes(S, 32)...)}
		})
		t.Family = kind
	case "S=L-smallkey": // S = L with a small-order key: equation holds for S reduced, must still be rejected
		t = p.revariant(t, func(msg []byte) gen.Triple {
			R := gen.NewKeyPoint(rng, big.NewInt(0), rng.Intn(8), -1)
			return gen.Triple{Pub: append([]byte(nil), p.so[rng.Intn(14)]...), Msg: msg, Sig: append(append([]byte(nil), R.Enc...), ref.LEBytes(ref.L, 32)...)}
		})
		t.Family = kind
	case "zip-only-R":
		t = p.revariant(t, func(msg []byte) gen.Triple {
			a := gen.RandScalar(rng)
			A := gen.NewKeyPoint(rng, a, 0, 0)
			re := p.so[rng.Intn(14)]
			return gen.Triple{Pub: A.Enc, Msg: msg, Sig: ref.SignWith(a, big.NewInt(0), A.Enc, re, msg, p.v)}
		})
		t.Family = kind
	case "other-variant-sig":
		// a signature that is valid under another variant with the same context
		// bytes; for ph batches over a message that is not a 64-byte digest
		ov := ref.Variant{Pure: len(p.v.Ctx) == 0, Ctx: p.v.Ctx}
		if !p.v.Ph {
			ov = ref.Variant{Ph: true, Ctx: p.v.Ctx}
		}
		m := gen.RandBytes(rng, []int{0, 1, 32, 63, 65, 100}[rng.Intn(6)])
		if ov.Ph {
			m = gen.RandBytes(rng, 64)
		}
		sd := gen.Seed(rng)
		pub, sig := ref.Sign(sd, m, ov)
		t = gen.Triple{Pub: pub, Msg: m, Sig: sig, V: p.v, Family: kind}
	case "ph-sig-over-wrong-len":
		// Ed25519ph only: a signature that satisfies the ph equation over a
		// "digest" of the wrong length (the public API refuses to produce one,
		// the model does not); the entry must report false because of the
		// length alone, and nothing else in its chunk makes the fallback run
		if p.v.Ph {
			m := gen.RandBytes(rng, []int{0, 1, 32, 63, 65, 128}[rng.Intn(6)])
			pub, sig := ref.Sign(gen.Seed(rng), m, p.v)
			t = gen.Triple{Pub: pub, Msg: m, Sig: sig, V: p.v, Family: kind}
		} else {
			t.Msg = append(t.Msg, 0)
		}
	case "wrong-prehash-len":
		if p.v.Ph {
			t.Msg = gen.RandBytes(rng, []int{0, 1, 63, 65, 128}[rng.Intn(5)])
		} else {
			t.Msg = append(t.Msg, 0)
		}
	}
	return t
}

func (p *entryPool) revariant(t gen.Triple, mk func(msg []byte) gen.Triple) gen.Triple {
	msg := gen.MsgFor(p.rng, p.v)
	n := mk(msg)
	n.V = p.v
	return n
}

func runC06(cfg *Cfg, rec *ev.Rec) {
	rng := cfg.rng("c06")
	nb := cfg.n(640, 12000)
	sweep := []int{5, 64, 65, 69, 131}
	for bi := 0; bi < nb; bi++ {
		v := gen.Variant(rng, -1)
		if bi%4 == 0 {
			v = ref.Variant{Pure: true}
		}
		zip := rng.Intn(2) == 0
		pool := newEntryPool(rng, v, 4)
		n := batchSizes[rng.Intn(len(batchSizes))]
		if !cfg.thorough() && n > 70 && rng.Intn(3) != 0 {
			n = batchSizes[rng.Intn(22)]
		}
		b := &Batch{V: v, Zip: zip, Hash: -1, EKind: "uniform", ESeed: rng.Int63(), FailAt: -1}
		// choose bad-position pattern
		mode := rng.Intn(10)
		badAt := map[int]bool{}
		forceKind := ""
		if v.Ph && bi%3 == 1 {
			// directed: the only bad entry of the batch is a ph signature over a
			// wrong-length digest (no other entry makes the fallback run)
			mode, forceKind = 2, "ph-sig-over-wrong-len"
			if n < 4 {
				n = sweep[rng.Intn(len(sweep))]
			}
		}
		switch {
		case mode < 2: // none
		case mode < 5: // one, position swept deterministically across batches
			if n > 0 {
				if rng.Intn(2) == 0 {
					n = sweep[rng.Intn(len(sweep))]
				}
				badAt[(bi*7+cfg.Shard)%n] = true
			}
		case mode < 7: // few
			for k := 0; k < 1+rng.Intn(4) && n > 0; k++ {
				badAt[rng.Intn(n)] = true
			}
		case mode < 9: // random subset
			for i := 0; i < n; i++ {
				if rng.Intn(3) == 0 {
					badAt[i] = true
				}
			}
		default: // all
			for i := 0; i < n; i++ {
				badAt[i] = true
			}
		}
		for i := 0; i < n; i++ {
			var t gen.Triple
			if badAt[i] && forceKind != "" {
				t = pool.badEntry(forceKind)
			} else if badAt[i] {
				t = pool.badEntry(badKinds[rng.Intn(len(badKinds))])
			} else {
				t = pool.goodEntry()
			}
			b.Keys = append(b.Keys, t.Pub)
			b.Msgs = append(b.Msgs, t.Msg)
			b.Sigs = append(b.Sigs, t.Sig)
			b.Kinds = append(b.Kinds, t.Family)
		}
		// sometimes a run of byte-identical entries straddles a chunk boundary
		// (positions 60..67 or 124..131 hold copies of one entry, good or bad)
		if n >= 68 && rng.Intn(4) == 0 {
			start := 60
			if n >= 132 && rng.Intn(2) == 0 {
				start = 124
			}
			var t gen.Triple
			if rng.Intn(2) == 0 {
				t = pool.badEntry([]string{"so-key", "so-R", "zip-only-smallkey", "zip-only-R", "flip-S", "S+L"}[rng.Intn(6)])
				badAt[start] = true
			} else {
				t = pool.goodEntry()
			}
			for i := start; i < start+8 && i < n; i++ {
				b.Keys[i], b.Msgs[i], b.Sigs[i], b.Kinds[i] = t.Pub, t.Msg, t.Sig, t.Family+"(run)"
			}
			rec.Class("batch/identical-run-across-chunk-boundary", 1)
		}
		if len(badAt) == 0 {
			// all-valid: every entropy stream is admissible
			b.EKind = validEntropyKinds[rng.Intn(len(validEntropyKinds))]
		} else if rng.Intn(4) == 0 {
			// uniformly random stream delivered in short reads
			b.EKind = []string{"chunk1", "chunk32", "chunk500"}[rng.Intn(3)]
		}
		switch rng.Intn(40) {
		case 0: // unsupported hash selector: every entry false
			b.Hash = int([]crypto.Hash{crypto.SHA256, crypto.SHA384, crypto.SHA512_256, crypto.Hash(99)}[rng.Intn(4)])
		case 1: // failing entropy source
			need := entropyNeeded(n)
			if need > 0 {
				b.FailAt = rng.Intn(need + 40)
			}
		case 2: // explicit supported selectors
			if v.Ph {
				b.Hash = int(crypto.SHA512)
			} else {
				b.Hash = 0
			}
		}
		judgeBatch(rec, b)
	}
	// argument count mismatch
	if cfg.mine(0) {
		rec.Eval("batch/count-mismatch")
		k := []ed25519.PublicKey{make([]byte, 32)}
		if _, _, err := ed25519.VerifyBatch(nil, k, nil, nil, &ed25519.Options{}); err == nil {
			rec.Violate("batch-equals-single", "argument count mismatch not reported", "batch/count", map[string]interface{}{"op": "none"})
		}
		if _, _, err := ed25519.VerifyBatch(nil, k, [][]byte{nil}, [][]byte{nil, nil}, &ed25519.Options{}); err == nil {
			rec.Violate("batch-equals-single", "argument count mismatch not reported", "batch/count", map[string]interface{}{"op": "none"})
		}
	}
}
