package main

import (
	"bytes"
	stded "crypto/ed25519"
	"errors"
	"fmt"
	"io"
	"math/big"
	"math/rand"

	"github.com/oasisprotocol/ed25519"
	"github.com/oasisprotocol/ed25519/verifh/ev"
	"github.com/oasisprotocol/ed25519/verifh/gen"
	"github.com/oasisprotocol/ed25519/verifh/ref"
)

func init() {
	monitors["C14"] = runC14
	replayers["genkey"] = func(rec *ev.Rec, c map[string]interface{}) bool {
		return judgeGenerate(rec, hexf(c, "stream"), str(c, "reader"), intf(c, "k"))
	}
	replayers["keyobj"] = func(rec *ev.Rec, c map[string]interface{}) bool {
		return judgeKeyObject(rec, hexf(c, "seed"), int64(intf(c, "eseed")))
	}
	replayers["pubequal"] = func(rec *ev.Rec, c map[string]interface{}) bool {
		return judgePublicEqual(rec, hexf(c, "a"), hexf(c, "b"))
	}
}

var errReader = errors.New("injected reader failure")

// countingReader serves a fixed stream according to a delivery policy and
// counts what was consumed.
type countingReader struct {
	data     []byte
	off      int
	chunk    int  // max bytes per Read (0 = unlimited)
	errAt    int  // return errReader once off reaches errAt (-1: never)
	errWith  bool // deliver the final bytes together with the error
	consumed int
	calls    int
}

func (r *countingReader) Read(p []byte) (int, error) {
	r.calls++
	if r.errAt >= 0 && r.off >= r.errAt {
		return 0, errReader
	}
	if r.off >= len(r.data) {
		return 0, io.EOF
	}
	n := len(p)
	if r.chunk > 0 && n > r.chunk {
		n = r.chunk
	}
	if n > len(r.data)-r.off {
		n = len(r.data) - r.off
	}
	if r.errAt >= 0 && r.off+n > r.errAt {
		n = r.errAt - r.off
	}
	copy(p, r.data[r.off:r.off+n])
	r.off += n
	r.consumed += n
	if r.errWith && r.errAt >= 0 && r.off >= r.errAt {
		return n, errReader
	}
	return n, nil
}

// judgeGenerate: GenerateKey reads exactly 32 bytes and derives the key
// NewKeyFromSeed derives; on a short / failing reader returns the error and
// no key.
func judgeGenerate(rec *ev.Rec, stream []byte, reader string, k int) bool {
	c := map[string]interface{}{"op": "genkey", "stream": ev.Hex(stream), "reader": reader, "k": k}
	rec.About(c)
	r := &countingReader{data: stream, errAt: -1}
	wantErr := error(nil)
	switch reader {
	case "exact":
		r.data = stream[:32]
	case "long":
	case "onebyte":
		r.chunk = 1
	case "chunk":
		r.chunk = k
	case "short": // stream ends after k < 32 bytes
		r.data = stream[:k]
		wantErr = io.ErrUnexpectedEOF
		if k == 0 {
			wantErr = io.EOF
		}
	case "error": // error after k < 32 bytes
		r.errAt = k
		wantErr = errReader
	case "error-with-data":
		r.errAt = k
		r.errWith = true
		if k < 32 {
			wantErr = errReader
		}
	case "error-after": // error only after 32 bytes were delivered: must not matter
		r.errAt = 32 + k
	}
	bad := ""
	var pub ed25519.PublicKey
	var priv ed25519.PrivateKey
	var err error
	if pn := safe(func() { pub, priv, err = ed25519.GenerateKey(r) }); pn != "" {
		bad = "GenerateKey panicked: " + pn
	} else if wantErr != nil {
		switch {
		case err == nil:
			bad = fmt.Sprintf("reader %s(k=%d): a key was returned although only %d bytes were available", reader, k, r.consumed)
		case err != wantErr:
			bad = fmt.Sprintf("reader %s(k=%d): error %v, want %v", reader, k, err, wantErr)
		case pub != nil || priv != nil:
			bad = "key material returned together with an error"
		}
	} else {
		want := ed25519.NewKeyFromSeed(stream[:32])
		modelPub, _ := ref.Sign(stream[:32], nil, ref.Variant{Pure: true})
		switch {
		case err != nil:
			bad = fmt.Sprintf("reader %s(k=%d): unexpected error %v", reader, k, err)
		case r.consumed != 32:
			bad = fmt.Sprintf("reader %s(k=%d): consumed %d bytes instead of 32", reader, k, r.consumed)
		case !bytes.Equal(priv, want) || !bytes.Equal(pub, want[32:]) || !bytes.Equal(pub, modelPub):
			bad = "generated key differs from NewKeyFromSeed(first 32 bytes) / model"
		case len(priv) != 64 || len(pub) != 32 || !bytes.Equal(priv[:32], stream[:32]) || !bytes.Equal(priv[32:], pub):
			bad = "private key is not seed || public key"
		}
	}
	rec.Eval("generate/" + reader)
	rec.Nontrivial(stream[:8], []byte(reader), []byte{byte(k)})
	if bad != "" {
		rec.Violate("generate-key", bad, "generate/"+reader, c)
		return true
	}
	rec.Sample(map[string]interface{}{"reader": reader, "k": k, "consumed": r.consumed, "read_calls": r.calls, "err": fmt.Sprint(err)})
	return false
}

// spareReaches writes into the spare capacity of a and reports whether that
// changed b.
func spareReaches(a, b []byte) string {
	if cap(a) == len(a) {
		return ""
	}
	snap := append([]byte(nil), b...)
	ext := a[:cap(a)]
	saved := append([]byte(nil), ext[len(a):]...)
	for i := len(a); i < len(ext); i++ {
		ext[i] ^= 0x5a
	}
	changed := !bytes.Equal(snap, b)
	copy(ext[len(a):], saved)
	if changed {
		return "overwrites"
	}
	return ""
}

type fakePriv []byte
type fakePub []byte

// judgeKeyObject: accessors and Equal are coherent.
func judgeKeyObject(rec *ev.Rec, seed []byte, eseed int64) bool {
	c := map[string]interface{}{"op": "keyobj", "seed": ev.Hex(seed), "eseed": eseed}
	rec.About(c)
	rng := rand.New(rand.NewSource(eseed))
	bad := ""
	pn := safe(func() {
		k := ed25519.NewKeyFromSeed(seed)
		snapshot := append([]byte(nil), k...)
		pubAny := k.Public()
		pub, ok := pubAny.(ed25519.PublicKey)
		if !ok {
			bad = "Public() is not an ed25519.PublicKey"
			return
		}
		sd := k.Seed()
		if !bytes.Equal(sd, seed) || !bytes.Equal(pub, k[32:]) || len(sd) != 32 || len(pub) != 32 {
			bad = "Seed()/Public() do not return the halves of the key"
			return
		}
		k2 := ed25519.NewKeyFromSeed(k.Seed())
		if !bytes.Equal(k2, k) || !k.Equal(k2) || !k2.Equal(k) {
			bad = "NewKeyFromSeed(k.Seed()) != k"
			return
		}
		// fresh copies: mutating what the accessors return leaves the key unchanged, and vice versa
		for i := range sd {
			sd[i] ^= 0xff
		}
		for i := range pub {
			pub[i] ^= 0xff
		}
		if !bytes.Equal(k, snapshot) {
			bad = "mutating the slices returned by Seed()/Public() changed the private key (aliasing)"
			return
		}
		sd2, pub2 := k.Seed(), k.Public().(ed25519.PublicKey)
		kk := append(ed25519.PrivateKey(nil), k...)
		for i := range kk {
			kk[i] ^= 0x55
		}
		_ = kk
		k[0] ^= 1
		k[40] ^= 1
		if sd2[0] != snapshot[0] || pub2[8] != snapshot[40] {
			bad = "slices returned by Seed()/Public() alias the key"
			return
		}
		k[0] ^= 1
		k[40] ^= 1
		// accessor capacity must not expose the key either
		if cap(sd2) > 32 && &sd2[:cap(sd2)][32] == &k[32] {
			bad = "Seed() returns a sub-slice of the key"
			return
		}
		// Equal: every single-byte (one random bit) difference, both directions
		for i := 0; i < 64; i++ {
			o := append(ed25519.PrivateKey(nil), k...)
			o[i] ^= 1 << uint(rng.Intn(8))
			if k.Equal(o) || o.Equal(k) {
				bad = fmt.Sprintf("PrivateKey.Equal true for keys differing in byte %d", i)
				return
			}
		}
		pub = k.Public().(ed25519.PublicKey)
		for i := 0; i < 32; i++ {
			o := append(ed25519.PublicKey(nil), pub...)
			o[i] ^= 1 << uint(rng.Intn(8))
			if pub.Equal(o) || o.Equal(pub) {
				bad = fmt.Sprintf("PublicKey.Equal true for keys differing in byte %d", i)
				return
			}
		}
		same := append(ed25519.PrivateKey(nil), k...)
		if !k.Equal(same) || !pub.Equal(append(ed25519.PublicKey(nil), pub...)) {
			bad = "Equal false for byte-identical keys"
			return
		}
		// different lengths
		if k.Equal(k[:63]) || k.Equal(append(same, 0)) || pub.Equal(pub[:31]) || k.Equal(ed25519.PrivateKey(nil)) || pub.Equal(ed25519.PublicKey(nil)) {
			bad = "Equal true for keys of different length"
			return
		}
		// foreign types
		foreign := []interface{}{[]byte(k), stded.PrivateKey(k), fakePriv(k), nil, pub, k[:], string(k), &k, 7}
		for _, f := range foreign {
			if _, isPriv := f.(ed25519.PrivateKey); isPriv {
				continue
			}
			if k.Equal(f) {
				bad = fmt.Sprintf("PrivateKey.Equal true for a value of type %T", f)
				return
			}
		}
		foreignP := []interface{}{[]byte(pub), stded.PublicKey(pub), fakePub(pub), nil, k, string(pub), &pub, ed25519.PrivateKey(pub)}
		for _, f := range foreignP {
			if pub.Equal(f) {
				bad = fmt.Sprintf("PublicKey.Equal true for a value of type %T", f)
				return
			}
		}
		// GenerateKey returns independent slices
		gp, gk, err := ed25519.GenerateKey(bytes.NewReader(seed))
		if err != nil || !bytes.Equal(gk, k) || !bytes.Equal(gp, pub) {
			bad = "GenerateKey(seed stream) != NewKeyFromSeed(seed)"
			return
		}
		gp[0] ^= 1
		if gk[32] != k[32] {
			bad = "public key returned by GenerateKey aliases the private key"
			return
		}
		gp[0] ^= 1
		// spare capacity of a returned slice must not reach another returned value
		// (a caller may legally append to what it was given)
		if w := spareReaches([]byte(gp), []byte(gk)); w != "" {
			bad = "GenerateKey: appending to the public key " + w + " the private key"
			return
		}
		if w := spareReaches([]byte(gk), []byte(gp)); w != "" {
			bad = "GenerateKey: appending to the private key " + w + " the public key"
			return
		}
		// a caller may hand NewKeyFromSeed a window of a larger buffer and reuse
		// the buffer afterwards: the key must not live in the caller's memory
		buf := make([]byte, 32+64+int(eseed&31))
		for i := range buf {
			buf[i] = 0xa5
		}
		copy(buf[16:48], seed)
		k4 := ed25519.NewKeyFromSeed(buf[16:48])
		for i := range buf {
			buf[i] = 0x3c
		}
		if !bytes.Equal(k4, k) || !bytes.Equal(k4.Seed(), seed) || !k4.Equal(k) {
			bad = "the key returned by NewKeyFromSeed changed when the caller reused the buffer that held the seed (aliasing)"
			return
		}
		k3 := ed25519.NewKeyFromSeed(seed)
		p3 := k3.Public().(ed25519.PublicKey)
		s3 := k3.Seed()
		if w := spareReaches([]byte(p3), []byte(k3)); w != "" {
			bad = "Public(): appending to the result " + w + " the private key"
			return
		}
		if w := spareReaches(s3, []byte(k3)); w != "" {
			bad = "Seed(): appending to the result " + w + " the private key"
			return
		}
	})
	if pn != "" {
		bad = "panic: " + pn
	}
	rec.Eval("keyobject")
	rec.Nontrivial(seed, []byte("keyobj"))
	if bad != "" {
		rec.Violate("key-object", bad, "keyobject", c)
		return true
	}
	return false
}

// judgePublicEqual: PublicKey.Equal is byte equality for arbitrary 32-byte
// strings, in particular for different encodings of the same point.
func judgePublicEqual(rec *ev.Rec, a, b []byte) bool {
	c := map[string]interface{}{"op": "pubequal", "a": ev.Hex(a), "b": ev.Hex(b)}
	rec.About(c)
	want := bytes.Equal(a, b)
	bad := ""
	pn := safe(func() {
		pa, pb := ed25519.PublicKey(append([]byte(nil), a...)), ed25519.PublicKey(append([]byte(nil), b...))
		if g1, g2 := pa.Equal(pb), pb.Equal(pa); g1 != want || g2 != want {
			bad = fmt.Sprintf("PublicKey.Equal = %v/%v for %x and %x (byte-identical: %v)", g1, g2, a, b, want)
		}
	})
	if pn != "" {
		bad = "panic: " + pn
	}
	rec.Eval("public-equal")
	rec.Nontrivial(a, b, []byte("pubequal"))
	if bad != "" {
		rec.Violate("key-object", bad, "pubequal", c)
		return true
	}
	return false
}

// encodingFamily returns 32-byte strings among which several decode to the
// same point: y and y+p for every y < 19, each with both sign bits (x = 0
// makes the sign bit redundant for y = 1 and y = p-1), the 14 small-order
// encodings, y = p-1 .. p-3.
func encodingFamily() [][]byte {
	var out [][]byte
	for k := int64(0); k < 19; k++ {
		for _, base := range []*big.Int{big.NewInt(k), new(big.Int).Add(ref.P, big.NewInt(k))} {
			for sgn := byte(0); sgn < 2; sgn++ {
				e := ref.LEBytes(base, 32)
				e[31] |= sgn << 7
				out = append(out, e)
			}
		}
	}
	for k := int64(1); k <= 3; k++ {
		for sgn := byte(0); sgn < 2; sgn++ {
			e := ref.LEBytes(new(big.Int).Sub(ref.P, big.NewInt(k)), 32)
			e[31] |= sgn << 7
			out = append(out, e)
		}
	}
	return append(out, ref.SmallOrderEncodings()...)
}

func runC14(cfg *Cfg, rec *ev.Rec) {
	rng := cfg.rng("c14")
	item := 0
	fam := encodingFamily()
	for i := range fam {
		for j := range fam {
			if cfg.mine(item) {
				judgePublicEqual(rec, fam[i], fam[j])
			}
			item++
		}
	}
	// deterministic reader sweep
	for _, rd := range []string{"exact", "long", "onebyte"} {
		if cfg.mine(item) {
			judgeGenerate(rec, gen.RandBytes(rng, 96), rd, 0)
		}
		item++
	}
	for k := 0; k < 32; k++ {
		for _, rd := range []string{"short", "error", "error-with-data"} {
			if cfg.mine(item) {
				judgeGenerate(rec, gen.RandBytes(rng, 96), rd, k)
			}
			item++
		}
	}
	for k := 1; k <= 40; k++ {
		if cfg.mine(item) {
			judgeGenerate(rec, gen.RandBytes(rng, 96), "chunk", k)
			judgeGenerate(rec, gen.RandBytes(rng, 96), "error-after", k-1)
		}
		item++
	}
	if cfg.mine(item) {
		judgeGenerate(rec, gen.RandBytes(rng, 96), "error-with-data", 32)
		// nil reader: crypto/rand, just coherence
		pub, priv, err := ed25519.GenerateKey(nil)
		rec.Eval("generate/nil-reader")
		if err != nil || !bytes.Equal(ed25519.NewKeyFromSeed(priv.Seed()), priv) || !bytes.Equal(pub, priv[32:]) {
			rec.Violate("generate-key", "GenerateKey(nil) incoherent", "generate/nil", map[string]interface{}{"op": "none"})
		}
	}
	n := cfg.n(1500, 100000)
	for i := 0; i < n; i++ {
		if i%3 == 0 {
			rds := []string{"exact", "long", "onebyte", "chunk", "short", "error", "error-with-data", "error-after"}
			judgeGenerate(rec, append(gen.Seed(rng), gen.RandBytes(rng, 64)...), rds[rng.Intn(len(rds))], rng.Intn(32))
		} else {
			judgeKeyObject(rec, gen.Seed(rng), rng.Int63())
		}
	}
}
