package main

import (
	"bytes"
	"fmt"

	"github.com/oasisprotocol/ed25519"
	"github.com/oasisprotocol/ed25519/extra/x25519"
	"github.com/oasisprotocol/ed25519/verifh/ev"
	"github.com/oasisprotocol/ed25519/verifh/gen"
	"github.com/oasisprotocol/ed25519/verifh/ref"
)

func init() {
	monitors["C11"] = runC11
	monitors["C12"] = runC12
	replayers["x25519"] = func(rec *ev.Rec, c map[string]interface{}) bool {
		var sc, pt []byte
		if c["scalar"] != nil {
			sc = hexf(c, "scalar")
		}
		if c["point"] != nil {
			pt = hexf(c, "point")
		}
		return judgeX(rec, sc, pt, str(c, "path"))
	}
	replayers["convpub"] = func(rec *ev.Rec, c map[string]interface{}) bool {
		return judgeConvPub(rec, hexf(c, "key"), str(c, "class"))
	}
	replayers["convpriv"] = func(rec *ev.Rec, c map[string]interface{}) bool { return judgeConvPriv(rec, hexf(c, "seed")) }
}

var nine = func() []byte { b := make([]byte, 32); b[0] = 9; return b }()

func isZero(b []byte) bool {
	for _, x := range b {
		if x != 0 {
			return false
		}
	}
	return true
}

// judgeX: X25519 == RFC 7748 on the generic and the base-point path, error
// and no output exactly for bad lengths / all-zero results.
func judgeX(rec *ev.Rec, scalar, point []byte, path string) bool {
	c := map[string]interface{}{"op": "x25519", "path": path}
	if scalar != nil {
		c["scalar"] = ev.Hex(scalar)
	}
	if point != nil {
		c["point"] = ev.Hex(point)
	}
	rec.About(c)
	var arg []byte
	switch path {
	case "basepoint":
		arg = x25519.Basepoint
		point = nine
	case "reslice":
		arg = x25519.Basepoint[0:32:32]
		point = nine
	case "copy9":
		arg = append([]byte(nil), nine...)
		point = nine
	default:
		arg = point
	}
	bad := ""
	var out []byte
	var err error
	pn := safe(func() { out, err = x25519.X25519(scalar, arg) })
	cls := "x/" + path
	switch {
	case pn != "":
		bad = "X25519 panicked: " + pn
	case len(scalar) != 32 || len(point) != 32:
		cls += "/badlen"
		if err == nil || out != nil {
			bad = fmt.Sprintf("lengths (%d,%d): err=%v out=%x", len(scalar), len(point), err, out)
		}
	default:
		want := ref.X25519(scalar, point)
		if isZero(want) {
			cls += "/loworder"
			if err == nil || out != nil {
				bad = fmt.Sprintf("all-zero result (low-order point) but err=%v out=%x", err, out)
			}
		} else {
			if err != nil || !bytes.Equal(out, want) {
				bad = fmt.Sprintf("X25519 = %x err=%v, RFC 7748 model = %x", out, err, want)
			}
		}
		if bad == "" {
			// array API agrees as well
			var d1, d2, in, base [32]byte
			for i := range d1 {
				d1[i], d2[i] = 0xa5, 0xff // destination arrays with old content
			}
			copy(in[:], scalar)
			copy(base[:], point)
			x25519.ScalarMult(&d1, &in, &base)
			if !bytes.Equal(d1[:], want) {
				bad = fmt.Sprintf("ScalarMult = %x, model = %x", d1, want)
			}
			if !bytes.Equal(in[:], scalar) || !bytes.Equal(base[:], point) {
				bad = "ScalarMult modified its scalar or point argument"
			}
			if bytes.Equal(point, nine) {
				x25519.ScalarBaseMult(&d2, &in)
				if !bytes.Equal(d2[:], want) {
					bad = fmt.Sprintf("ScalarBaseMult = %x, model ladder on the base point = %x", d2, want)
				}
				if !bytes.Equal(in[:], scalar) {
					bad = fmt.Sprintf("ScalarBaseMult modified its scalar argument: %x -> %x", scalar, in)
				}
				// destination aliasing the scalar (in-place use of the array API)
				d3 := in
				x25519.ScalarBaseMult(&d3, &d3)
				if !bytes.Equal(d3[:], want) {
					bad = fmt.Sprintf("ScalarBaseMult(&k, &k) = %x, model = %x", d3, want)
				}
				d4 := in
				x25519.ScalarMult(&d4, &d4, &base)
				if !bytes.Equal(d4[:], want) {
					bad = fmt.Sprintf("ScalarMult(&k, &k, base) = %x, model = %x", d4, want)
				}
			}
		}
	}
	rec.Eval(cls)
	if len(scalar) == 32 && len(point) == 32 {
		rec.Nontrivial(scalar, point, []byte(path))
	}
	if bad != "" {
		rec.Violate("x25519", bad, cls, c)
		return true
	}
	if len(scalar) == 32 {
		rec.Sample(map[string]interface{}{"scalar": ev.Hex(scalar), "path": path, "out": ev.Hex(out), "err": fmt.Sprint(err)})
	}
	return false
}

func runC11(cfg *Cfg, rec *ev.Rec) {
	rng := cfg.rng("c11")
	item := 0
	// all 256 single-bit scalars on the fast path, all byte fills, lengths
	for bit := 0; bit < 256; bit++ {
		if cfg.mine(item) {
			b := make([]byte, 32)
			b[bit/8] = 1 << uint(bit%8)
			judgeX(rec, b, nil, "basepoint")
		}
		item++
	}
	for l := 0; l <= 70; l++ {
		if cfg.mine(item) {
			if l != 32 {
				judgeX(rec, gen.RandBytes(rng, l), gen.RandBytes(rng, 32), "generic")
				judgeX(rec, gen.RandBytes(rng, 32), gen.RandBytes(rng, l), "generic")
				judgeX(rec, gen.RandBytes(rng, l), nil, "basepoint")
			}
		}
		item++
	}
	if cfg.mine(item) {
		judgeX(rec, nil, gen.RandBytes(rng, 32), "generic")
		judgeX(rec, gen.RandBytes(rng, 32), nil, "generic")
		judgeX(rec, nil, nil, "generic")
		judgeX(rec, nil, nil, "basepoint")
		// wrong-length views of the exported base-point slice must not take the fast path
		for _, l := range []int{1, 16, 31} {
			sc := gen.RandBytes(rng, 32)
			out, err := x25519.X25519(sc, x25519.Basepoint[:l])
			rec.Eval("x/basepoint-short-view")
			if err == nil || out != nil {
				rec.Violate("x25519", fmt.Sprintf("Basepoint[:%d] accepted as a point", l), "x/short-view", map[string]interface{}{"op": "none"})
			}
		}
	}
	rounds := cfg.n(48, 4000)
	for r := 0; r < rounds; r++ {
		scs := gen.XScalars(rng)
		pts, _ := gen.XPoints(rng)
		for _, sc := range scs {
			switch rng.Intn(4) {
			case 0:
				judgeX(rec, sc, nil, "basepoint")
			case 1:
				judgeX(rec, sc, nil, []string{"reslice", "copy9"}[rng.Intn(2)])
			default:
				if rng.Intn(3) == 0 {
					judgeX(rec, sc, pts[rng.Intn(len(pts))], "generic")
				} else {
					judgeX(rec, sc, nil, "basepoint")
				}
			}
		}
		for _, pt := range pts {
			judgeX(rec, gen.RandBytes(rng, 32), pt, "generic")
		}
	}
}

// ---- C12 ----

func judgeConvPriv(rec *ev.Rec, seed []byte) bool {
	c := map[string]interface{}{"op": "convpriv", "seed": ev.Hex(seed)}
	rec.About(c)
	bad := ""
	pn := safe(func() {
		priv := ed25519.NewKeyFromSeed(seed)
		snap := append([]byte(nil), priv...)
		xp := x25519.EdPrivateKeyToX25519(priv)
		if !bytes.Equal(xp, ref.ClampedScalarBytes(seed)) {
			bad = fmt.Sprintf("converted private key %x, want clamp(SHA-512(seed)[:32]) = %x", xp, ref.ClampedScalarBytes(seed))
			return
		}
		if !bytes.Equal(priv, snap) {
			bad = "conversion modified the private key"
			return
		}
		xpub, ok := x25519.EdPublicKeyToX25519(priv.Public().(ed25519.PublicKey))
		if !ok {
			bad = "public key of a generated key pair reported undecodable"
			return
		}
		viaX, err := x25519.X25519(xp, x25519.Basepoint)
		if err != nil || !bytes.Equal(viaX, xpub) {
			bad = fmt.Sprintf("X25519(convPriv, Basepoint) = %x (err %v) but convPub(pub) = %x", viaX, err, xpub)
			return
		}
		// model: u of [a]B
		a, _ := ref.ExpandSeed(seed)
		A := ref.ScalarMult(a, ref.B)
		if !bytes.Equal(xpub, ref.EdYToMontU(A.Y)) {
			bad = "converted public key differs from the model"
		}
	})
	if pn != "" {
		bad = "panic: " + pn
	}
	rec.Eval("conv/commute")
	rec.Nontrivial(seed, []byte("convpriv"))
	if bad != "" {
		rec.Violate("conversion-commutes", bad, "conv/priv", c)
		return true
	}
	return false
}

func judgeConvPub(rec *ev.Rec, key []byte, class string) bool {
	c := map[string]interface{}{"op": "convpub", "key": ev.Hex(key), "class": class}
	rec.About(c)
	bad := ""
	snap := append([]byte(nil), key...)
	var out []byte
	var ok bool
	pn := safe(func() { out, ok = x25519.EdPublicKeyToX25519(key) })
	pt, dec := ref.Decode(key)
	switch {
	case pn != "":
		bad = "panic: " + pn
	case ok != dec:
		bad = fmt.Sprintf("conversion ok=%v but model decodable=%v", ok, dec)
	case !ok && out != nil:
		bad = "output returned for an undecodable key"
	case ok && !bytes.Equal(out, ref.EdYToMontU(pt.Y)):
		bad = fmt.Sprintf("conversion = %x, canonical (1+y)/(1-y) = %x", out, ref.EdYToMontU(pt.Y))
	case !bytes.Equal(key, snap):
		bad = "conversion modified the key"
	}
	st := "undecodable"
	if dec {
		st = "decodable"
	}
	rec.Eval("convpub/"+class, "convpub/"+st)
	rec.Nontrivial(key, []byte("convpub"))
	if bad != "" {
		rec.Violate("conversion-public", bad, "conv/pub/"+class, c)
		return true
	}
	if dec && class != "random" {
		rec.Sample(map[string]interface{}{"key": ev.Hex(key), "class": class, "u": ev.Hex(out)})
	}
	return false
}

func runC12(cfg *Cfg, rec *ev.Rec) {
	rng := cfg.rng("c12")
	ks, cs := gen.SpecialKeys()
	for i := range ks {
		if cfg.mine(i) {
			judgeConvPub(rec, ks[i], cs[i])
		}
	}
	xk, xc := gen.SmallXKeys()
	for i := range xk {
		if cfg.mine(i) {
			judgeConvPub(rec, xk[i], xc[i])
		}
	}
	n := cfg.n(5000, 300000)
	for i := 0; i < n; i++ {
		switch i % 5 {
		case 0:
			judgeConvPriv(rec, gen.Seed(rng))
		case 1:
			g, cl := gen.Garbage32(rng)
			judgeConvPub(rec, g, cl)
		case 2:
			// decodable points in a random encoding, incl. torsion mixtures
			kp := gen.NewKeyPoint(rng, gen.RandScalar(rng), rng.Intn(8), -1)
			judgeConvPub(rec, kp.Enc, "mixed-order/"+kp.EncKind)
		default:
			judgeConvPub(rec, gen.RandBytes(rng, 32), "random")
		}
	}
}
