package main

import (
	"bytes"
	"crypto"
	stded "crypto/ed25519"
	"crypto/sha512"
	"fmt"
	"io"
	"math/rand"

	"github.com/oasisprotocol/ed25519"
	"github.com/oasisprotocol/ed25519/verifh/ev"
	"github.com/oasisprotocol/ed25519/verifh/gen"
	"github.com/oasisprotocol/ed25519/verifh/ref"
)

func init() {
	monitors["C02"] = runC02
	monitors["C03"] = runC03
	monitors["C07"] = runC07
	replayers["sign"] = func(rec *ev.Rec, c map[string]interface{}) bool {
		return judgeSign(rec, hexf(c, "seed"), hexf(c, "msg"), caseVariant(c["variant"]))
	}
	replayers["roundtrip"] = func(rec *ev.Rec, c map[string]interface{}) bool {
		return judgeRoundtrip(rec, hexf(c, "seed"), hexf(c, "msg"), caseVariant(c["variant"]), intf(c, "n"), intf(c, "pos"), str(c, "entropy"), int64(intf(c, "eseed")))
	}
	replayers["domsep"] = func(rec *ev.Rec, c map[string]interface{}) bool {
		return judgeDomSep(rec, hexf(c, "seed"), hexf(c, "msg"), caseVariant(c["p"]), caseVariant(c["q"]), int64(intf(c, "eseed")))
	}
	replayers["ctx-contract"] = func(rec *ev.Rec, c map[string]interface{}) bool {
		return judgeCtxContract(rec, intf(c, "ctxlen"), boolf(c, "ph"), int64(intf(c, "eseed")))
	}
	replayers["digest-contract"] = func(rec *ev.Rec, c map[string]interface{}) bool {
		return judgeDigestContract(rec, intf(c, "msglen"), intf(c, "ctxlen"), int64(intf(c, "eseed")))
	}
}

// recReader fails the test if it is ever read.
type recReader struct{ reads int }

func (r *recReader) Read(p []byte) (int, error) {
	r.reads++
	for i := range p {
		p[i] = 0xA5
	}
	return len(p), nil
}

// libSignAll signs through every entry point that selects the variant and
// returns the signatures with the name of the form used.
func libSignAll(priv ed25519.PrivateKey, msg []byte, v ref.Variant, rr io.Reader) (sigs [][]byte, forms []string, errs []error) {
	add := func(form string, s []byte, err error) {
		sigs = append(sigs, s)
		forms = append(forms, form)
		errs = append(errs, err)
	}
	switch {
	case v.Pure:
		add("Sign", ed25519.Sign(priv, msg), nil)
		s, err := priv.Sign(rr, msg, crypto.Hash(0))
		add("PrivateKey.Sign(crypto.Hash(0))", s, err)
		s, err = priv.Sign(rr, msg, &ed25519.Options{})
		add("PrivateKey.Sign(&Options{})", s, err)
		s, err = priv.Sign(nil, msg, &ed25519.Options{Hash: crypto.Hash(0), Context: ""})
		add("PrivateKey.Sign(nil reader,&Options{})", s, err)
	case v.Ph && len(v.Ctx) == 0:
		s, err := priv.Sign(rr, msg, crypto.SHA512)
		add("PrivateKey.Sign(crypto.SHA512)", s, err)
		s, err = priv.Sign(rr, msg, &ed25519.Options{Hash: crypto.SHA512})
		add("PrivateKey.Sign(&Options{Hash:SHA512})", s, err)
	default:
		s, err := priv.Sign(rr, msg, libOpts(v, false))
		add("PrivateKey.Sign(&Options{...})", s, err)
		s, err = priv.Sign(nil, msg, libOpts(v, true)) // ZIP215 flag must not influence signing
		add("PrivateKey.Sign(nil reader,&Options{ZIP215})", s, err)
	}
	return
}

func stdSign(seed, msg []byte, v ref.Variant) ([]byte, []byte, error) {
	sk := stded.NewKeyFromSeed(seed)
	pub := sk.Public().(stded.PublicKey)
	if v.Pure {
		return pub, stded.Sign(sk, msg), nil
	}
	o := &stded.Options{Context: string(v.Ctx)}
	if v.Ph {
		o.Hash = crypto.SHA512
	}
	s, err := sk.Sign(nil, msg, o)
	return pub, s, err
}

func signCase(op string, seed, msg []byte, v ref.Variant) map[string]interface{} {
	return map[string]interface{}{"op": op, "seed": ev.Hex(seed), "msg": ev.Hex(msg), "variant": variantCase(v)}
}

// judgeSign: key derivation + signing are byte-exact against the model and
// the toolchain's crypto/ed25519, deterministic, and never read entropy.
func judgeSign(rec *ev.Rec, seed, msg []byte, v ref.Variant) bool {
	c := signCase("sign", seed, msg, v)
	rec.About(c)
	bad := ""
	var libSig []byte
	pan := safe(func() {
		wantPub, wantSig := ref.Sign(seed, msg, v)
		// the seed is handed over as a sub-slice of a larger caller buffer
		// which the caller reuses afterwards: the derived key must neither
		// write into that buffer nor keep referring to it
		buf := make([]byte, 128)
		for i := range buf {
			buf[i] = 0xEE
		}
		copy(buf[16:48], seed)
		priv := ed25519.NewKeyFromSeed(buf[16:48])
		for i := range buf {
			if (i < 16 || i >= 48) && buf[i] != 0xEE {
				bad = "NewKeyFromSeed wrote outside the 32 seed bytes of the caller's buffer"
				return
			}
			buf[i] = 0x11
		}
		pub := priv.Public().(ed25519.PublicKey)
		if !bytes.Equal(pub, wantPub) || !bytes.Equal(priv[32:], wantPub) || !bytes.Equal(priv[:32], seed) {
			bad = fmt.Sprintf("public key %x, RFC 8032 model %x", []byte(pub), wantPub)
			return
		}
		stdPub, stdSig, stdErr := stdSign(seed, msg, v)
		if stdErr == nil && (!bytes.Equal(stdPub, pub) || !bytes.Equal(stdSig, wantSig)) {
			// the two oracles disagree: do not blame the library
			rec.Inconc("model and crypto/ed25519 disagree")
			return
		}
		rr := &recReader{}
		sigs, forms, errs := libSignAll(priv, msg, v, rr)
		for i := range sigs {
			if errs[i] != nil {
				bad = forms[i] + " returned error " + errs[i].Error()
				return
			}
			if !bytes.Equal(sigs[i], wantSig) {
				bad = fmt.Sprintf("%s = %x, RFC 8032 model/crypto/ed25519 = %x", forms[i], sigs[i], wantSig)
				return
			}
		}
		if rr.reads != 0 {
			bad = fmt.Sprintf("signing read the entropy argument %d times", rr.reads)
			return
		}
		// repeated call, fresh key object
		sigs2, _, _ := libSignAll(ed25519.NewKeyFromSeed(seed), msg, v, rr)
		for i := range sigs2 {
			if !bytes.Equal(sigs2[i], sigs[i]) {
				bad = "repeated signing returned different bytes"
				return
			}
		}
		libSig = sigs[0]
	})
	if pan != "" {
		bad = "panic: " + pan
	}
	cls := "sign/" + gen.VariantName(v)
	rec.Eval(cls, fmt.Sprintf("ctxlen/%s", lenClass(len(v.Ctx))), "msglen/"+lenClass(len(msg)))
	rec.Nontrivial(seed, msg, []byte(gen.VariantName(v)), v.Ctx)
	if bad != "" {
		rec.Violate("sign-exact", bad, "sign/"+gen.VariantName(v), c)
		return true
	}
	rec.Sample(map[string]interface{}{"seed": ev.Hex(seed), "msglen": len(msg), "variant": gen.VariantName(v), "ctxlen": len(v.Ctx), "sig": ev.Hex(libSig)})
	return false
}

func lenClass(n int) string {
	switch {
	case n == 0:
		return "0"
	case n < 32:
		return "1-31"
	case n < 64:
		return "32-63"
	case n == 64:
		return "64"
	case n < 112:
		return "65-111"
	case n < 128:
		return "112-127"
	case n == 128:
		return "128"
	case n < 255:
		return "129-254"
	case n == 255:
		return "255"
	case n < 1000:
		return "256-999"
	}
	return ">=1000"
}

func runC02(cfg *Cfg, rec *ev.Rec) {
	rng := cfg.rng("c02")
	// every context length 0..255 for ph, 1..255 for ctx (deterministic sweep)
	item := 0
	for l := 0; l <= 255; l++ {
		for _, ph := range []bool{false, true} {
			if l == 0 && !ph {
				continue
			}
			if cfg.mine(item) {
				v := ref.Variant{Ph: ph, Ctx: gen.RandBytes(rng, l)}
				judgeSign(rec, gen.Seed(rng), gen.MsgFor(rng, v), v)
			}
			item++
		}
	}
	// every message length class
	for _, ml := range gen.MsgLens {
		if cfg.mine(item) {
			judgeSign(rec, gen.Seed(rng), gen.RandBytes(rng, ml), ref.Variant{Pure: true})
			v := gen.Variant(rng, 1)
			judgeSign(rec, gen.Seed(rng), gen.RandBytes(rng, ml), v)
		}
		item++
	}
	n := cfg.n(2500, 150000)
	for i := 0; i < n; i++ {
		v := gen.Variant(rng, i%3)
		judgeSign(rec, gen.Seed(rng), gen.MsgFor(rng, v), v)
	}
}

// ---- C03 ----

type fixedReader struct {
	fill byte
}

func (f fixedReader) Read(p []byte) (int, error) {
	for i := range p {
		p[i] = f.fill
	}
	return len(p), nil
}

// blockReader repeats one 16-byte block.
type blockReader struct {
	block [16]byte
	off   int
}

func (b *blockReader) Read(p []byte) (int, error) {
	for i := range p {
		p[i] = b.block[b.off%16]
		b.off++
	}
	return len(p), nil
}

// chunkReader returns at most k bytes per call from an underlying stream
// (legal io.Reader behaviour; io.ReadFull must assemble them).
type chunkReader struct {
	r io.Reader
	k int
}

func (c *chunkReader) Read(p []byte) (int, error) {
	if len(p) > c.k {
		p = p[:c.k]
	}
	return c.r.Read(p)
}

func entropy(kind string, eseed int64) io.Reader {
	switch kind {
	case "zero":
		return fixedReader{0}
	case "ones":
		return fixedReader{0xff}
	case "tiny":
		return fixedReader{0x01}
	case "block":
		b := &blockReader{}
		rand.New(rand.NewSource(eseed)).Read(b.block[:])
		return b
	case "chunk1":
		return &chunkReader{rand.New(rand.NewSource(eseed)), 1}
	case "chunk32":
		return &chunkReader{rand.New(rand.NewSource(eseed)), 32}
	case "chunk500":
		return &chunkReader{rand.New(rand.NewSource(eseed)), 500}
	}
	return rand.New(rand.NewSource(eseed))
}

var validEntropyKinds = []string{"uniform", "zero", "ones", "tiny", "block", "chunk1", "chunk32"}

// judgeRoundtrip: a signature made by the library verifies in every verifier.
func judgeRoundtrip(rec *ev.Rec, seed, msg []byte, v ref.Variant, n, pos int, ekind string, eseed int64) bool {
	c := signCase("roundtrip", seed, msg, v)
	c["n"], c["pos"], c["entropy"], c["eseed"] = n, pos, ekind, eseed
	rec.About(c)
	bad := ""
	pan := safe(func() {
		// as a caller would: the seed lives in a larger buffer that is
		// wiped once the key has been derived
		sbuf := make([]byte, 96)
		copy(sbuf[:32], seed)
		priv := ed25519.NewKeyFromSeed(sbuf[:32])
		for i := range sbuf {
			sbuf[i] = 0
		}
		pub := priv.Public().(ed25519.PublicKey)
		var sig []byte
		var err error
		if v.Pure {
			sig = ed25519.Sign(priv, msg)
		} else {
			sig, err = priv.Sign(nil, msg, libOpts(v, false))
		}
		if err != nil {
			bad = "Sign error: " + err.Error()
			return
		}
		if len(sig) != 64 {
			bad = fmt.Sprintf("signature of %d bytes", len(sig))
			return
		}
		// model side conditions: S canonical, R and A not small order
		if ref.LEInt(sig[32:]).Cmp(ref.L) >= 0 {
			bad = "produced S >= L"
			return
		}
		R, okR := ref.Decode(sig[:32])
		A, okA := ref.Decode(pub)
		if !okR || !okA || ref.IsSmallOrder(R) || ref.IsSmallOrder(A) {
			bad = "produced R or public key undecodable / of small order"
			return
		}
		if !bytes.Equal(ref.Encode(R), sig[:32]) || !bytes.Equal(ref.Encode(A), pub) {
			bad = "produced R or public key not canonically encoded"
			return
		}
		for _, zip := range []bool{false, true} {
			if ok, p := libVerify(pub, msg, sig, v, zip); !ok || p != "" {
				bad = fmt.Sprintf("single verification (zip215=%v) rejected the library's own signature %s", zip, p)
				return
			}
		}
		// as a batch member
		t := gen.Triple{Pub: pub, Msg: msg, Sig: sig, V: v}
		for _, zip := range []bool{false, true} {
			nc := n - 1
			if nc > 5 {
				nc = 5
			}
			base := companionsFor(v, nc)
			keys := make([]ed25519.PublicKey, n)
			msgs := make([][]byte, n)
			sigs := make([][]byte, n)
			for i := 0; i < n; i++ {
				if i == pos {
					keys[i], msgs[i], sigs[i] = t.Pub, t.Msg, t.Sig
				} else {
					b := base[i%len(base)]
					keys[i], msgs[i], sigs[i] = b.Pub, b.Msg, b.Sig
				}
			}
			// every third case: another member of the same 64-entry chunk is
			// invalid, so the chunk is decided by the fallback; the library's
			// own signature must still be reported valid (uniform entropy
			// only: an invalid member is present)
			badNeighbour := n >= 2 && (eseed+int64(n))%3 == 0
			ek := ekind
			bpos := -1
			if badNeighbour {
				lo := (pos / 64) * 64
				hi := lo + 64
				if hi > n {
					hi = n
				}
				bpos = lo + int((eseed>>8)%int64(hi-lo))
				if bpos == pos {
					bpos = lo + (pos-lo+1)%(hi-lo)
				}
				if bpos == pos {
					badNeighbour = false
				} else {
					sigs[bpos] = append([]byte(nil), sigs[bpos]...)
					sigs[bpos][33] ^= 0x10
					if ek != "chunk1" && ek != "chunk32" {
						ek = "uniform"
					}
				}
			}
			ok, valid, err := ed25519.VerifyBatch(entropy(ek, eseed), keys, msgs, sigs, libOpts(v, zip))
			if badNeighbour {
				switch {
				case err != nil || len(valid) != n:
					bad = fmt.Sprintf("VerifyBatch(n=%d) err=%v", n, err)
				case !valid[pos]:
					bad = fmt.Sprintf("VerifyBatch(n=%d,pos=%d,zip215=%v): the library's own signature reported invalid when member %d of the same chunk is invalid", n, pos, zip, bpos)
				case valid[bpos] || ok:
					bad = "damaged member accepted"
				}
				if bad != "" {
					return
				}
				continue
			}
			if err != nil || !ok || len(valid) != n {
				bad = fmt.Sprintf("VerifyBatch(n=%d,pos=%d,zip215=%v,entropy=%s) ok=%v err=%v", n, pos, zip, ekind, ok, err)
				if len(valid) == n && !valid[pos] {
					bad += " (the library's own signature reported invalid)"
				}
				return
			}
		}
	})
	if pan != "" {
		bad = "panic: " + pan
	}
	rec.Eval("roundtrip/"+gen.VariantName(v), fmt.Sprintf("batch-n/%d", n), "entropy/"+ekind, fmt.Sprintf("batch-chunk-of-pos/%d", pos/64))
	rec.Nontrivial(seed, msg, []byte(gen.VariantName(v)), v.Ctx, []byte(fmt.Sprint(n, pos, ekind)))
	if bad != "" {
		rec.Violate("roundtrip", bad, "roundtrip/"+gen.VariantName(v), c)
		return true
	}
	rec.Sample(map[string]interface{}{"seed": ev.Hex(seed), "msglen": len(msg), "variant": gen.VariantName(v), "n": n, "pos": pos, "entropy": ekind})
	return false
}

var c03Sizes = []int{1, 2, 3, 4, 5, 63, 64, 65, 68, 129, 132}

func runC03(cfg *Cfg, rec *ev.Rec) {
	rng := cfg.rng("c03")
	n := cfg.n(1500, 60000)
	for i := 0; i < n; i++ {
		v := gen.Variant(rng, i%3)
		sz := c03Sizes[rng.Intn(len(c03Sizes))]
		if i%3 != 0 { // mostly small batches (cost), all sizes regularly
			sz = c03Sizes[rng.Intn(6)]
		}
		var pos int
		switch rng.Intn(4) {
		case 0:
			pos = 0
		case 1:
			pos = sz - 1
		case 2: // chunk boundary
			pos = []int{63, 64, 65, 127, 128}[rng.Intn(5)]
			if pos >= sz {
				pos = sz - 1
			}
		default:
			pos = rng.Intn(sz)
		}
		ek := validEntropyKinds[rng.Intn(len(validEntropyKinds))]
		judgeRoundtrip(rec, gen.Seed(rng), gen.MsgFor(rng, v), v, sz, pos, ek, rng.Int63())
	}
}

// ---- C07 ----

func sameVariant(p, q ref.Variant) bool {
	return p.Pure == q.Pure && p.Ph == q.Ph && bytes.Equal(p.Ctx, q.Ctx)
}

// judgeDomSep signs under p with the library and verifies under q (single
// default + ZIP-215 + batch); acceptance must equal p == q.
func judgeDomSep(rec *ev.Rec, seed, msg []byte, p, q ref.Variant, eseed int64) bool {
	c := map[string]interface{}{"op": "domsep", "seed": ev.Hex(seed), "msg": ev.Hex(msg), "p": variantCase(p), "q": variantCase(q), "eseed": eseed}
	rec.About(c)
	bad := ""
	want := sameVariant(p, q)
	pan := safe(func() {
		priv := ed25519.NewKeyFromSeed(seed)
		pub := priv.Public().(ed25519.PublicKey)
		var sig []byte
		var err error
		if p.Pure {
			sig = ed25519.Sign(priv, msg)
		} else {
			sig, err = priv.Sign(nil, msg, libOpts(p, false))
		}
		if err != nil {
			bad = "Sign error " + err.Error()
			return
		}
		// the model must agree with the expectation (sanity of the pair)
		if ref.Verify(pub, msg, sig, q, false) != want {
			if want {
				bad = "model rejects the library's signature under its own pair"
			} else {
				rec.Inconc("model accepts a cross-domain signature (hash collision?)")
			}
			return
		}
		for _, zip := range []bool{false, true} {
			got, pn := libVerify(pub, msg, sig, q, zip)
			if pn != "" {
				bad = "panic in VerifyWithOptions: " + pn
				return
			}
			if got != want {
				bad = fmt.Sprintf("signed under %s verified under %s (zip215=%v): accepted=%v", descVariant(p), descVariant(q), zip, got)
				return
			}
		}
		// batch: 4 and 5 copies signed under p (distinct messages not needed), verified under q
		for _, n := range []int{4, 5} {
			keys := make([]ed25519.PublicKey, n)
			msgs := make([][]byte, n)
			sigs := make([][]byte, n)
			for i := range keys {
				keys[i], msgs[i], sigs[i] = pub, msg, sig
			}
			ok, valid, err := ed25519.VerifyBatch(rand.New(rand.NewSource(eseed)), keys, msgs, sigs, libOpts(q, n == 5))
			if err != nil {
				bad = "VerifyBatch error " + err.Error()
				return
			}
			for i := range valid {
				if valid[i] != want {
					bad = fmt.Sprintf("batch(n=%d): signed under %s verified under %s: entry %d accepted=%v", n, descVariant(p), descVariant(q), i, valid[i])
					return
				}
			}
			if ok != want {
				bad = "batch summary flag wrong"
				return
			}
		}
	})
	if pan != "" {
		bad = "panic: " + pan
	}
	rel := "same"
	if !want {
		rel = "foreign"
	}
	rec.Eval("domsep/" + gen.VariantName(p) + "->" + gen.VariantName(q) + "/" + rel)
	rec.Nontrivial(seed, msg, []byte(descVariant(p)), []byte(descVariant(q)))
	if bad != "" {
		rec.Violate("domain-separation", bad, "domsep/"+gen.VariantName(p)+"->"+gen.VariantName(q), c)
		return true
	}
	if !want {
		rec.Sample(map[string]interface{}{"signed": descVariant(p), "verified": descVariant(q), "accepted": false})
	}
	return false
}

func descVariant(v ref.Variant) string {
	if v.Pure {
		return "pure"
	}
	n := "ctx"
	if v.Ph {
		n = "ph"
	}
	c := v.Ctx
	if len(c) > 6 {
		return fmt.Sprintf("%s(len=%d,%x..)", n, len(c), c[:6])
	}
	return fmt.Sprintf("%s(len=%d,%x)", n, len(c), c)
}

// foreignPairs derives verification pairs q from the signing pair p.
func foreignPairs(rng *rand.Rand, p ref.Variant, msgIs64 bool) []ref.Variant {
	var out []ref.Variant
	add := func(v ref.Variant) {
		if v.Ph && !msgIs64 {
			return
		}
		if !v.Pure && !v.Ph && len(v.Ctx) == 0 {
			return // not expressible: empty context without pre-hash is pure
		}
		if len(v.Ctx) > 255 {
			return
		}
		out = append(out, v)
	}
	add(p) // same pair
	add(ref.Variant{Pure: true})
	c := p.Ctx
	if len(c) > 0 {
		f := append([]byte(nil), c...)
		f[rng.Intn(len(f))] ^= 1 << uint(rng.Intn(8))
		add(ref.Variant{Ph: p.Ph, Ctx: f})                                    // one-bit flip
		add(ref.Variant{Ph: p.Ph, Ctx: append([]byte(nil), c[:len(c)-1]...)}) // minus last byte
		add(ref.Variant{Ph: !p.Ph, Ctx: c})                                   // same bytes, other variant
	}
	add(ref.Variant{Ph: p.Ph && !p.Pure, Ctx: append(append([]byte(nil), c...), 0)}) // c || 0x00
	add(ref.Variant{Ph: true})                                                       // ph with empty context
	add(ref.Variant{Ph: true, Ctx: gen.RandBytes(rng, 1+rng.Intn(255))})
	add(ref.Variant{Ctx: gen.RandBytes(rng, 1+rng.Intn(255))})
	if p.Pure {
		add(ref.Variant{Ctx: []byte{0}})
		add(ref.Variant{Ph: true, Ctx: []byte{0}})
	}
	return out
}

// judgeCtxContract: contexts of 255 bytes accepted, longer ones refused with
// the documented kind of refusal at each entry point.
func judgeCtxContract(rec *ev.Rec, l int, ph bool, eseed int64) bool {
	c := map[string]interface{}{"op": "ctx-contract", "ctxlen": l, "ph": ph, "eseed": eseed}
	rec.About(c)
	rng := rand.New(rand.NewSource(eseed))
	seed := gen.RandBytes(rng, 32)
	ctx := string(gen.RandBytes(rng, l))
	msg := gen.RandBytes(rng, 64)
	o := &ed25519.Options{Context: ctx}
	if ph {
		o.Hash = crypto.SHA512
	}
	priv := ed25519.NewKeyFromSeed(seed)
	pub := priv.Public().(ed25519.PublicKey)
	tooLong := l > 255
	bad := ""
	var sig []byte
	var err error
	if pn := safe(func() { sig, err = priv.Sign(nil, msg, o) }); pn != "" {
		bad = "Sign panicked: " + pn
	} else if tooLong != (err != nil) {
		bad = fmt.Sprintf("Sign with %d-byte context: err=%v", l, err)
	} else if tooLong && sig != nil {
		bad = "Sign returned a signature together with an error"
	}
	if bad == "" {
		vs := sig
		if tooLong {
			vs = make([]byte, 64)
		}
		var ok bool
		pn := safe(func() { ok = ed25519.VerifyWithOptions(pub, msg, vs, o) })
		if tooLong && pn == "" {
			bad = fmt.Sprintf("VerifyWithOptions accepted a %d-byte context without panic", l)
		} else if !tooLong && (pn != "" || !ok) {
			bad = fmt.Sprintf("VerifyWithOptions with %d-byte context: ok=%v panic=%q", l, ok, pn)
		}
		if bad == "" {
			for _, n := range []int{0, 1, 4} {
				keys := make([]ed25519.PublicKey, n)
				msgs := make([][]byte, n)
				sigs := make([][]byte, n)
				for i := range keys {
					keys[i], msgs[i], sigs[i] = pub, msg, vs
				}
				var bok bool
				var berr error
				pn = safe(func() { bok, _, berr = ed25519.VerifyBatch(rng, keys, msgs, sigs, o) })
				if pn != "" {
					bad = "VerifyBatch panicked: " + pn
				} else if tooLong != (berr != nil) {
					bad = fmt.Sprintf("VerifyBatch(n=%d) with %d-byte context: err=%v", n, l, berr)
				} else if !tooLong && !bok {
					bad = fmt.Sprintf("VerifyBatch(n=%d) rejected a valid %d-byte-context batch", n, l)
				}
			}
		}
	}
	rec.Eval(fmt.Sprintf("ctx-contract/len=%d/ph=%v", l, ph))
	rec.Nontrivial([]byte(fmt.Sprint("ctxc", l, ph, eseed)))
	if bad != "" {
		rec.Violate("context-length-contract", bad, fmt.Sprintf("ctx-contract/%d", l), c)
		return true
	}
	return false
}

// judgeDigestContract: ph admits only 64-byte digests.
func judgeDigestContract(rec *ev.Rec, ml, cl int, eseed int64) bool {
	c := map[string]interface{}{"op": "digest-contract", "msglen": ml, "ctxlen": cl, "eseed": eseed}
	rec.About(c)
	rng := rand.New(rand.NewSource(eseed))
	seed := gen.RandBytes(rng, 32)
	o := &ed25519.Options{Hash: crypto.SHA512, Context: string(gen.RandBytes(rng, cl))}
	msg := gen.RandBytes(rng, ml)
	priv := ed25519.NewKeyFromSeed(seed)
	pub := priv.Public().(ed25519.PublicKey)
	wrong := ml != 64
	bad := ""
	var sig []byte
	var err error
	if pn := safe(func() { sig, err = priv.Sign(nil, msg, o) }); pn != "" {
		bad = "Sign panicked: " + pn
	} else if wrong != (err != nil) {
		bad = fmt.Sprintf("ph Sign with %d-byte digest: err=%v", ml, err)
	}
	if bad == "" {
		vs := sig
		if wrong {
			vs = make([]byte, 64)
		}
		var ok bool
		pn := safe(func() { ok = ed25519.VerifyWithOptions(pub, msg, vs, o) })
		if wrong && pn == "" {
			bad = fmt.Sprintf("ph VerifyWithOptions with %d-byte digest did not panic", ml)
		} else if !wrong && (pn != "" || !ok) {
			bad = "ph verify of a valid signature failed " + pn
		}
	}
	if bad == "" {
		// batch: entry with wrong digest length is false, others keep their verdict, no error
		good := make([]byte, 64)
		rng.Read(good)
		gsig, _ := priv.Sign(nil, good, o)
		for _, n := range []int{1, 4, 6} {
			pos := rng.Intn(n)
			keys := make([]ed25519.PublicKey, n)
			msgs := make([][]byte, n)
			sigs := make([][]byte, n)
			for i := range keys {
				keys[i], msgs[i], sigs[i] = pub, good, gsig
			}
			if wrong {
				// the strongest wrong-length entry: a signature that is valid for the
				// raw message under the non-prehashed variant with the same context
				ov := ref.Variant{Pure: cl == 0, Ctx: []byte(o.Context)}
				_, osig := ref.Sign(seed, msg, ov)
				msgs[pos], sigs[pos] = msg, osig
			} else {
				msgs[pos], sigs[pos] = msg, sig
			}
			var bok bool
			var valid []bool
			var berr error
			pn := safe(func() { bok, valid, berr = ed25519.VerifyBatch(rng, keys, msgs, sigs, o) })
			switch {
			case pn != "":
				bad = "VerifyBatch panicked: " + pn
			case berr != nil:
				bad = "VerifyBatch returned an error for a wrong digest length: " + berr.Error()
			case len(valid) != n:
				bad = "result vector length"
			default:
				for i := range valid {
					w := !(wrong && i == pos)
					if valid[i] != w {
						bad = fmt.Sprintf("VerifyBatch(n=%d): entry %d = %v, want %v (entry %d has a %d-byte digest)", n, i, valid[i], w, pos, ml)
					}
				}
				if bok != !wrong {
					bad = "summary flag"
				}
			}
		}
	}
	rec.Eval(fmt.Sprintf("digest-contract/len=%s", lenClass(ml)))
	rec.Nontrivial([]byte(fmt.Sprint("dig", ml, cl, eseed)))
	if bad != "" {
		rec.Violate("digest-length-contract", bad, fmt.Sprintf("digest-contract/%d", ml), c)
		return true
	}
	return false
}

func runC07(cfg *Cfg, rec *ev.Rec) {
	rng := cfg.rng("c07")
	n := cfg.n(400, 20000)
	for i := 0; i < n; i++ {
		p := gen.Variant(rng, i%3)
		seed := gen.Seed(rng)
		var msg []byte
		if p.Ph || rng.Intn(2) == 0 {
			d := sha512.Sum512(gen.RandBytes(rng, 10))
			msg = d[:]
		} else {
			msg = gen.Msg(rng)
		}
		for _, q := range foreignPairs(rng, p, len(msg) == 64) {
			judgeDomSep(rec, seed, msg, p, q, rng.Int63())
		}
	}
	// ph vs ctx with identical context over every context length class
	item := 0
	for _, l := range []int{1, 2, 31, 32, 33, 127, 128, 129, 254, 255} {
		if cfg.mine(item) {
			c := gen.RandBytes(rng, l)
			d := gen.RandBytes(rng, 64)
			judgeDomSep(rec, gen.Seed(rng), d, ref.Variant{Ph: true, Ctx: c}, ref.Variant{Ctx: c}, rng.Int63())
			judgeDomSep(rec, gen.Seed(rng), d, ref.Variant{Ctx: c}, ref.Variant{Ph: true, Ctx: c}, rng.Int63())
			// pure signature over a 64-byte message verified as ph with empty context, and back
			judgeDomSep(rec, gen.Seed(rng), d, ref.Variant{Pure: true}, ref.Variant{Ph: true}, rng.Int63())
			judgeDomSep(rec, gen.Seed(rng), d, ref.Variant{Ph: true}, ref.Variant{Pure: true}, rng.Int63())
		}
		item++
	}
	// contracts
	for _, l := range []int{1, 127, 128, 254, 255, 256, 257, 300, 1000, 65536 + 3} {
		for _, ph := range []bool{false, true} {
			if cfg.mine(item) {
				judgeCtxContract(rec, l, ph, rng.Int63())
			}
			item++
		}
	}
	for _, ml := range []int{0, 1, 32, 63, 64, 65, 128, 1000} {
		if cfg.mine(item) {
			judgeDigestContract(rec, ml, []int{0, 1, 255}[rng.Intn(3)], rng.Int63())
		}
		item++
	}
	// Options{Context:""} without hash behaves as pure: covered by judgeSign forms in C02; assert here too
	if cfg.mine(item) {
		judgeSign(rec, gen.Seed(rng), gen.Msg(rng), ref.Variant{Pure: true})
	}
}
