// apimon: API-level runtime monitors (properties C01-C07, C09-C14).
// Runs the real library on generated hostile workloads while reference
// monitors judge every observed call.
package main

import (
	"crypto"
	"encoding/json"
	"flag"
	"fmt"
	"hash/fnv"
	"math/rand"
	"os"

	"github.com/oasisprotocol/ed25519"
	"github.com/oasisprotocol/ed25519/verifh/ev"
	"github.com/oasisprotocol/ed25519/verifh/ref"
)

type Cfg struct {
	Prop    string
	Tier    string
	Seed    int64
	Shard   int
	NShards int
	Config  string
	Scale   float64
}

func (c *Cfg) thorough() bool { return c.Tier == "thorough" }

// n returns the per-shard share of a total of q (quick) / t (thorough) cases.
func (c *Cfg) n(q, t int) int {
	tot := q
	if c.thorough() {
		tot = t
	}
	tot = int(float64(tot) * c.Scale)
	k := tot / c.NShards
	if c.Shard < tot%c.NShards {
		k++
	}
	return k
}

// mine reports whether deterministic item i belongs to this shard.
func (c *Cfg) mine(i int) bool { return i%c.NShards == c.Shard }

func (c *Cfg) rng(stream string) *rand.Rand {
	h := fnv.New64a()
	fmt.Fprintf(h, "%d/%s/%d/%s", c.Seed, c.Prop, c.Shard, stream)
	return rand.New(rand.NewSource(int64(h.Sum64())))
}

var monitors = map[string]func(*Cfg, *ev.Rec){}
var replayers = map[string]func(*ev.Rec, map[string]interface{}) bool{}

func main() {
	var cfg Cfg
	var out, replay string
	flag.StringVar(&cfg.Prop, "prop", "", "property id")
	flag.StringVar(&cfg.Tier, "tier", "quick", "quick|thorough")
	flag.Int64Var(&cfg.Seed, "seed", 1, "VERIF_SEED")
	flag.IntVar(&cfg.Shard, "shard", 0, "shard index")
	flag.IntVar(&cfg.NShards, "nshards", 1, "number of shards")
	flag.StringVar(&cfg.Config, "config", "K0", "build configuration id (informational)")
	flag.Float64Var(&cfg.Scale, "scale", 1, "workload scale")
	flag.StringVar(&out, "out", "", "output record")
	flag.StringVar(&replay, "replay", "", "replay a violation record")
	flag.Parse()

	if !selfCheck() {
		fmt.Println("INCONCLUSIVE oracle self-validation failed")
		os.Exit(3)
	}

	if replay != "" {
		b, err := os.ReadFile(replay)
		if err != nil {
			fmt.Println(err)
			os.Exit(3)
		}
		var v ev.Violation
		if err := json.Unmarshal(b, &v); err != nil {
			fmt.Println(err)
			os.Exit(3)
		}
		rec := ev.New(v.Property, cfg.Config, "replay", 0)
		op, _ := v.Case["op"].(string)
		fn := replayers[op]
		if fn == nil {
			fmt.Println("INCONCLUSIVE no replayer for op", op)
			os.Exit(3)
		}
		fn(rec, v.Case)
		for _, nv := range rec.Violations {
			fmt.Printf("REPLAY-VIOLATION property=%s sub=%s %s\n", nv.Property, nv.Sub, nv.What)
		}
		if rec.NViolations > 0 {
			os.Exit(1)
		}
		fmt.Println("REPLAY-OK: the recorded case does not violate on this tree")
		return
	}

	fn := monitors[cfg.Prop]
	if fn == nil {
		fmt.Println("unknown property", cfg.Prop)
		os.Exit(3)
	}
	rec := ev.New(cfg.Prop, cfg.Config, fmt.Sprintf("%d/%d", cfg.Shard, cfg.NShards), cfg.Seed)
	if out != "" {
		rec.SetProgress(out + ".about")
	}
	fn(&cfg, rec)
	if out != "" {
		if err := rec.Write(out); err != nil {
			fmt.Println(err)
			os.Exit(3)
		}
	}
	fmt.Printf("shard %d/%d %s: evaluations=%d violations=%d\n", cfg.Shard, cfg.NShards, cfg.Prop, rec.Evaluations, rec.NViolations)
}

// ---- library call helpers ----

// reusedOpts is one caller-owned Options object that is re-filled for every
// other call (callers do reuse option objects); the rest get fresh ones.
var (
	reusedOpts  = &ed25519.Options{}
	optsCounter int
)

func libOpts(v ref.Variant, zip bool) *ed25519.Options {
	optsCounter++
	o := &ed25519.Options{}
	if optsCounter%2 == 0 {
		// re-filled field by field, as a caller would (the object itself,
		// including anything the library may keep inside it, lives on)
		o = reusedOpts
		o.Hash, o.Context = 0, ""
	}
	o.ZIP215Verify = zip
	if v.Ph {
		o.Hash = crypto.SHA512
	}
	if !v.Pure {
		o.Context = string(v.Ctx)
	}
	return o
}

// safe runs fn and returns the recovered panic value as a string ("" if none).
func safe(fn func()) (p string) {
	defer func() {
		if r := recover(); r != nil {
			p = fmt.Sprint(r)
			if p == "" {
				p = "panic"
			}
		}
	}()
	fn()
	return ""
}

func libVerify(pub, msg, sig []byte, v ref.Variant, zip bool) (ok bool, pan string) {
	pan = safe(func() {
		if v.Pure && !zip {
			// exercise both entry points of default pure verification
			ok = ed25519.Verify(pub, msg, sig)
			ok2 := ed25519.VerifyWithOptions(pub, msg, sig, libOpts(v, zip))
			if ok != ok2 {
				panic("Verify and VerifyWithOptions(default) disagree")
			}
			return
		}
		ok = ed25519.VerifyWithOptions(pub, msg, sig, libOpts(v, zip))
	})
	return
}

func variantCase(v ref.Variant) map[string]interface{} {
	return map[string]interface{}{"pure": v.Pure, "ph": v.Ph, "ctx": ev.Hex(v.Ctx)}
}

func caseVariant(m interface{}) ref.Variant {
	mm, _ := m.(map[string]interface{})
	var v ref.Variant
	v.Pure, _ = mm["pure"].(bool)
	v.Ph, _ = mm["ph"].(bool)
	s, _ := mm["ctx"].(string)
	v.Ctx = ev.UnHex(s)
	return v
}

func str(m map[string]interface{}, k string) string  { s, _ := m[k].(string); return s }
func hexf(m map[string]interface{}, k string) []byte { return ev.UnHex(str(m, k)) }
func boolf(m map[string]interface{}, k string) bool  { b, _ := m[k].(bool); return b }
func intf(m map[string]interface{}, k string) int {
	switch x := m[k].(type) {
	case float64:
		return int(x)
	case int:
		return x
	case int64:
		return int(x)
	}
	return 0
}

func selfCheck() bool {
	bad := ref.SelfCheck()
	for _, b := range bad {
		fmt.Println("selfcheck:", b)
	}
	return len(bad) == 0
}
