// Package calls defines a serialisable API call, its execution against the
// library under test, and the model-built generator of hostile call lists
// (shared by the C08 transcripts and the C15 concurrency/history monitors).
package calls

import (
	"bufio"
	"bytes"
	"crypto"
	"encoding/hex"
	"encoding/json"
	"fmt"
	"io"
	"math/big"
	"math/rand"

	"github.com/oasisprotocol/ed25519"
	"github.com/oasisprotocol/ed25519/extra/x25519"
	"github.com/oasisprotocol/ed25519/verifh/gen"
	"github.com/oasisprotocol/ed25519/verifh/ref"
)

type Call struct {
	Op    string   `json:"op"`
	Class string   `json:"class"`
	A     string   `json:"a,omitempty"` // seed / key / scalar
	B     string   `json:"b,omitempty"` // message / point
	C     string   `json:"c,omitempty"` // signature
	Hash  int      `json:"hash,omitempty"`
	Ctx   string   `json:"ctx,omitempty"`
	Zip   bool     `json:"zip,omitempty"`
	Keys  []string `json:"keys,omitempty"`
	Msgs  []string `json:"msgs,omitempty"`
	Sigs  []string `json:"sigs,omitempty"`
	ESeed int64    `json:"eseed,omitempty"`

	// decoded once by Prepare so that concurrent executions share the
	// same (read-only) input slices
	prepared     bool
	opt          *ed25519.Options // built once: concurrent executions share the same *Options
	a, b, c, ctx []byte
	keys         []ed25519.PublicKey
	msgs, sigs   [][]byte
}

// Prepare decodes the hex fields once; afterwards Execute passes the very
// same slices to the library on every execution (shared read-only inputs).
func (c *Call) Prepare() {
	c.a, c.b, c.c, c.ctx = uh(c.A), uh(c.B), uh(c.C), uh(c.Ctx)
	c.keys = make([]ed25519.PublicKey, len(c.Keys))
	c.msgs = make([][]byte, len(c.Msgs))
	c.sigs = make([][]byte, len(c.Sigs))
	for i := range c.keys {
		c.keys[i] = uh(c.Keys[i])
	}
	for i := range c.msgs {
		c.msgs[i] = uh(c.Msgs[i])
	}
	for i := range c.sigs {
		c.sigs[i] = uh(c.Sigs[i])
	}
	c.opt = &ed25519.Options{Hash: crypto.Hash(c.Hash), Context: string(c.ctx), ZIP215Verify: c.Zip}
	c.prepared = true
}

func hx(b []byte) string { return hex.EncodeToString(b) }
func uh(s string) []byte {
	b, err := hex.DecodeString(s)
	if err != nil {
		panic(err)
	}
	return b
}

func opts(c *Call) *ed25519.Options {
	if !c.prepared {
		c.Prepare()
	}
	return c.opt
}

// Execute runs the call against the library and renders every output.
func Execute(c *Call) (res string) {
	defer func() {
		if r := recover(); r != nil {
			res = "panic"
		}
	}()
	if !c.prepared {
		c.Prepare()
	}
	if r, ok := executeExtra(c); ok {
		return r
	}
	switch c.Op {
	case "keygen":
		k := ed25519.NewKeyFromSeed(c.a)
		return hx(k)
	case "sign":
		k := ed25519.NewKeyFromSeed(c.a)
		if c.Hash == 0 && c.Ctx == "" {
			return hx(ed25519.Sign(k, c.b))
		}
		s, err := k.Sign(nil, c.b, opts(c))
		if err != nil {
			return "err"
		}
		return hx(s)
	case "verify":
		return fmt.Sprint(ed25519.VerifyWithOptions(c.a, c.b, c.c, opts(c)))
	case "batch":
		keys, msgs, sigs := c.keys, c.msgs, c.sigs
		var rd io.Reader
		if c.ESeed != 0 {
			rd = rand.New(rand.NewSource(c.ESeed))
		}
		ok, valid, err := ed25519.VerifyBatch(rd, keys, msgs, sigs, opts(c))
		s := fmt.Sprintf("%v/%v/", ok, err != nil)
		for _, v := range valid {
			if v {
				s += "1"
			} else {
				s += "0"
			}
		}
		return s
	case "x25519":
		o, err := x25519.X25519(c.a, c.b)
		return fmt.Sprintf("%s/%v", hx(o), err != nil)
	case "x25519base":
		o, err := x25519.X25519(c.a, x25519.Basepoint)
		var d [32]byte
		var in [32]byte
		for i := range d {
			d[i] = 0xff // callers reuse destination arrays: the result must not depend on their old content
		}
		copy(in[:], c.a)
		x25519.ScalarBaseMult(&d, &in)
		return fmt.Sprintf("%s/%v/%s", hx(o), err != nil, hx(d[:]))
	case "convpriv":
		k := ed25519.NewKeyFromSeed(c.a)
		return hx(x25519.EdPrivateKeyToX25519(k))
	case "convpub":
		o, ok := x25519.EdPublicKeyToX25519(c.a)
		return fmt.Sprintf("%s/%v", hx(o), ok)
	}
	return "?"
}

func vfields(c *Call, v ref.Variant) {
	if v.Ph {
		c.Hash = int(crypto.SHA512)
	}
	if !v.Pure {
		c.Ctx = hx(v.Ctx)
	}
}

// Generate writes a call list; rounds scales its size.
func Generate(w *bufio.Writer, seed int64, rounds int) int {
	rng := rand.New(rand.NewSource(seed*7919 + 8))
	n := 0
	emit := func(c *Call) {
		b, _ := json.Marshal(c)
		w.Write(b)
		w.WriteByte('\n')
		n++
	}
	triple := func(t gen.Triple, class string) {
		for _, zip := range []bool{false, true} {
			c := &Call{Op: "verify", Class: class, A: hx(t.Pub), B: hx(t.Msg), C: hx(t.Sig), Zip: zip}
			vfields(c, t.V)
			emit(c)
		}
	}
	so := ref.SmallOrderEncodings()
	for r := 0; r < rounds; r++ {
		// key generation and the three signing variants (incl. long messages and all context classes)
		for i := 0; i < 12; i++ {
			v := gen.Variant(rng, i%3)
			sd := gen.Seed(rng)
			emit(&Call{Op: "keygen", Class: "keygen", A: hx(sd)})
			c := &Call{Op: "sign", Class: "sign/" + gen.VariantName(v), A: hx(sd), B: hx(gen.MsgFor(rng, v))}
			vfields(c, v)
			emit(c)
			emit(&Call{Op: "convpriv", Class: "convpriv", A: hx(sd)})
		}
		// bulk signing with random seeds/messages: needs no model work to
		// generate, the configurations check each other (rare carry/borrow
		// patterns in the scalar reduction are hit by volume)
		for i := 0; i < 150; i++ {
			v := ref.Variant{Pure: true}
			if i%5 == 0 {
				v = gen.Variant(rng, -1)
			}
			c := &Call{Op: "sign", Class: "sign-bulk/" + gen.VariantName(v), A: hx(gen.RandBytes(rng, 32)), B: hx(gen.MsgFor(rng, v))}
			vfields(c, v)
			emit(c)
			if i%3 == 0 {
				emit(&Call{Op: "x25519base", Class: "x25519base-bulk", A: hx(gen.RandBytes(rng, 32))})
			}
		}
		// verification verdicts in both modes
		for i := 0; i < 8; i++ {
			triple(gen.Torsion(rng, rng.Intn(8), rng.Intn(8), rng.Intn(5) == 0, rng.Intn(5) == 0, -1), "torsion")
		}
		sb := gen.SBound(rng)
		for i := 0; i < 10; i++ {
			triple(gen.SmallKey(rng, so[rng.Intn(14)], sb[rng.Intn(len(sb))], rng.Intn(8), -1), "smallkey-Sbound")
		}
		// top slice [2^252, L) explicitly
		delta := new(big.Int).Sub(ref.L, gen.P2_252)
		for i := 0; i < 4; i++ {
			triple(gen.SmallKey(rng, so[rng.Intn(14)], new(big.Int).Add(gen.P2_252, gen.RandBelow(rng, delta)), rng.Intn(8), -1), "smallkey-topslice")
		}
		for i := 0; i < 3; i++ {
			triple(gen.NoncanonR(rng, so[rng.Intn(14)], -1), "noncanonR")
			triple(gen.Honest(rng, -1), "honest")
			h := gen.Honest(rng, -1)
			ps := gen.AllPerturbs(h)
			triple(gen.ApplyPerturb(h, ps[rng.Intn(len(ps))]), "perturbed")
		}
		for i := 0; i < 6; i++ {
			g, _ := gen.Garbage32(rng)
			h := gen.Honest(rng, -1)
			if i%2 == 0 {
				h.Pub = g
			} else {
				copy(h.Sig[:32], g)
			}
			triple(h, "garbage")
			emit(&Call{Op: "convpub", Class: "convpub", A: hx(g)})
		}
		ks, _ := gen.SpecialKeys()
		for i := 0; i < 6; i++ {
			emit(&Call{Op: "convpub", Class: "convpub-special", A: hx(ks[rng.Intn(len(ks))])})
		}
		// X25519 on both paths
		scs := gen.XScalars(rng)
		pts, _ := gen.XPoints(rng)
		for i := 0; i < 14; i++ {
			sc := scs[rng.Intn(len(scs))]
			emit(&Call{Op: "x25519base", Class: "x25519base", A: hx(sc)})
			emit(&Call{Op: "x25519", Class: "x25519", A: hx(sc), B: hx(pts[rng.Intn(len(pts))])})
		}
		// batches with seeded entropy
		for i := 0; i < 3; i++ {
			v := gen.Variant(rng, -1)
			sizes := []int{4, 5, 7, 8, 33, 64, 65, 68, 70, 130}
			bn := sizes[rng.Intn(len(sizes))]
			if i > 0 {
				bn = sizes[rng.Intn(4)]
			}
			c := &Call{Op: "batch", Class: fmt.Sprintf("batch/%d", bn), Zip: rng.Intn(2) == 0, ESeed: rng.Int63()}
			vfields(c, v)
			var pool []gen.Triple
			for k := 0; k < 3; k++ {
				sd := gen.Seed(rng)
				msg := gen.MsgFor(rng, v)
				pub, sig := ref.Sign(sd, msg, v)
				pool = append(pool, gen.Triple{Pub: pub, Msg: msg, Sig: sig})
			}
			// one mixed-order member and one ZIP-215-only member
			{
				a, rr := gen.RandScalar(rng), gen.RandScalar(rng)
				A := gen.NewKeyPoint(rng, a, rng.Intn(8), -1)
				R := gen.NewKeyPoint(rng, rr, rng.Intn(8), -1)
				msg := gen.MsgFor(rng, v)
				pool = append(pool, gen.Triple{Pub: A.Enc, Msg: msg, Sig: ref.SignWith(a, rr, A.Enc, R.Enc, msg, v)})
				S := gen.RandBelow(rng, ref.L)
				if rng.Intn(2) == 0 {
					S = new(big.Int).Add(gen.P2_252, gen.RandBelow(rng, delta))
				}
				Rk := gen.NewKeyPoint(rng, S, rng.Intn(8), -1)
				msg2 := gen.MsgFor(rng, v)
				pool = append(pool, gen.Triple{Pub: so[rng.Intn(14)], Msg: msg2, Sig: append(append([]byte(nil), Rk.Enc...), ref.LEBytes(S, 32)...)})
			}
			for k := 0; k < bn; k++ {
				t := pool[rng.Intn(len(pool))].Clone()
				switch rng.Intn(12) {
				case 0:
					t.Sig[rng.Intn(64)] ^= 1 << uint(rng.Intn(8))
				case 1:
					if len(t.Msg) > 0 {
						t.Msg[0] ^= 1
					}
				case 2:
					S := ref.LEInt(t.Sig[32:])
					S.Add(S, ref.L)
					if S.Cmp(gen.P2_256) < 0 {
						copy(t.Sig[32:], ref.LEBytes(S, 32))
					}
				}
				c.Keys = append(c.Keys, hx(t.Pub))
				c.Msgs = append(c.Msgs, hx(t.Msg))
				c.Sigs = append(c.Sigs, hx(t.Sig))
			}
			emit(c)
		}
	}
	return n
}

// ExecuteWithOptions runs the call with a caller-owned Options object
// instead of the call's own one (the C15 monitor reuses one object across
// calls and changes its fields in between, as a caller may).
func ExecuteWithOptions(c *Call, o *ed25519.Options) string {
	if !c.prepared {
		c.Prepare()
	}
	cc := *c
	cc.opt = o
	return Execute(&cc)
}

// OptionsOf returns a fresh copy of the call's options.
func OptionsOf(c *Call) ed25519.Options {
	if !c.prepared {
		c.Prepare()
	}
	return *c.opt
}

// ---- history pool (C15) ----

// executeExtra handles the ops only the C15 pool uses.
func executeExtra(c *Call) (string, bool) {
	switch c.Op {
	case "genkey":
		pub, priv, err := ed25519.GenerateKey(bytesReader(c.a))
		return fmt.Sprintf("%s/%s/%v", hx(pub), hx(priv), err != nil), true
	case "genkey-nil":
		pub, priv, err := ed25519.GenerateKey(nil)
		ok := err == nil && len(priv) == 64 && bytes.Equal(pub, priv[32:]) && bytes.Equal(ed25519.NewKeyFromSeed(priv.Seed()), priv)
		return fmt.Sprintf("coherent=%v", ok), true
	case "keyobj":
		k := ed25519.NewKeyFromSeed(c.a)
		k2 := ed25519.NewKeyFromSeed(c.b)
		return fmt.Sprintf("%s/%s/%v/%v", hx(k.Seed()), hx(k.Public().(ed25519.PublicKey)), k.Equal(k2), k.Public().(ed25519.PublicKey).Equal(k2.Public())), true
	case "verify-plain":
		return fmt.Sprint(ed25519.Verify(c.a, c.b, c.c)), true
	}
	return "", false
}

type sliceReader struct {
	b []byte
}

func (r *sliceReader) Read(p []byte) (int, error) {
	if len(r.b) == 0 {
		return 0, fmt.Errorf("eof")
	}
	n := copy(p, r.b)
	r.b = r.b[n:]
	return n, nil
}

func bytesReader(b []byte) *sliceReader { return &sliceReader{b} }

// GenerateHistoryPool writes a pool of distinct calls built so that
// history/interleaving dependence would show: variant twins sharing a
// context, batches that fall back next to batches that do not, failing calls
// next to succeeding ones, generic next to base-point X25519, small-order
// inputs next to honest ones.  Related calls are emitted adjacently.
func GenerateHistoryPool(w *bufio.Writer, seed int64, groups int) int {
	rng := rand.New(rand.NewSource(seed*104729 + 15))
	n := 0
	emit := func(c *Call) {
		b, _ := json.Marshal(c)
		w.Write(b)
		w.WriteByte('\n')
		n++
	}
	so := ref.SmallOrderEncodings()
	verifyBoth := func(pub, msg, sig []byte, v ref.Variant, class string) {
		for _, zip := range []bool{false, true} {
			c := &Call{Op: "verify", Class: class, A: hx(pub), B: hx(msg), C: hx(sig), Zip: zip}
			vfields(c, v)
			emit(c)
		}
	}
	mkBatch := func(v ref.Variant, bn int, nbad int, zip bool, class string) {
		c := &Call{Op: "batch", Class: class, Zip: zip, ESeed: rng.Int63()}
		vfields(c, v)
		badAt := map[int]bool{}
		for len(badAt) < nbad {
			badAt[rng.Intn(bn)] = true
		}
		var pool []gen.Triple
		for k := 0; k < 3; k++ {
			sd := gen.Seed(rng)
			msg := gen.MsgFor(rng, v)
			pub, sig := ref.Sign(sd, msg, v)
			pool = append(pool, gen.Triple{Pub: pub, Msg: msg, Sig: sig})
		}
		for k := 0; k < bn; k++ {
			t := pool[rng.Intn(len(pool))].Clone()
			if badAt[k] {
				switch rng.Intn(4) {
				case 0:
					t.Sig[rng.Intn(64)] ^= 1 << uint(rng.Intn(8))
				case 1:
					t.Pub = append([]byte(nil), so[rng.Intn(14)]...)
				case 2:
					t.Sig = t.Sig[:rng.Intn(64)]
				default:
					t.Msg = append(t.Msg, 1)
				}
			}
			c.Keys = append(c.Keys, hx(t.Pub))
			c.Msgs = append(c.Msgs, hx(t.Msg))
			c.Sigs = append(c.Sigs, hx(t.Sig))
		}
		emit(c)
	}
	for g := 0; g < groups; g++ {
		// variant twins: same seed, same 64-byte message, same context bytes under ctx and ph
		ctx := gen.RandBytes(rng, []int{1, 3, 32, 200, 255}[rng.Intn(5)])
		sd := gen.Seed(rng)
		msg := gen.RandBytes(rng, 64)
		for _, v := range []ref.Variant{{Ctx: ctx}, {Ph: true, Ctx: ctx}, {Pure: true}, {Ph: true}} {
			c := &Call{Op: "sign", Class: "twin-sign/" + gen.VariantName(v), A: hx(sd), B: hx(msg)}
			vfields(c, v)
			emit(c)
			pub, sig := ref.Sign(sd, msg, v)
			verifyBoth(pub, msg, sig, v, "twin-verify/"+gen.VariantName(v))
			// the same signature presented under the twin variant (must be rejected)
			tw := ref.Variant{Ph: !v.Ph, Ctx: ctx}
			verifyBoth(pub, msg, sig, tw, "twin-cross/"+gen.VariantName(tw))
		}
		// pairs that differ only in the context bytes (same length): executed by
		// the monitor through ONE reused *Options object whose Context is
		// changed between the calls
		{
			l := []int{1, 8, 32, 255}[rng.Intn(4)]
			cA, cB := gen.RandBytes(rng, l), gen.RandBytes(rng, l)
			sd2 := gen.Seed(rng)
			m2 := gen.RandBytes(rng, 64)
			for _, ph := range []bool{false, true} {
				vA, vB := ref.Variant{Ph: ph, Ctx: cA}, ref.Variant{Ph: ph, Ctx: cB}
				a := &Call{Op: "sign", Class: "ctxreuse/sign", A: hx(sd2), B: hx(m2)}
				vfields(a, vA)
				emit(a)
				b := &Call{Op: "sign", Class: "ctxreuse/sign", A: hx(sd2), B: hx(m2)}
				vfields(b, vB)
				emit(b)
				pub, sigA := ref.Sign(sd2, m2, vA)
				va := &Call{Op: "verify", Class: "ctxreuse/verify", A: hx(pub), B: hx(m2), C: hx(sigA)}
				vfields(va, vA)
				emit(va)
				vb := &Call{Op: "verify", Class: "ctxreuse/verify", A: hx(pub), B: hx(m2), C: hx(sigA)}
				vfields(vb, vB) // signature made under context A presented under context B: false
				emit(vb)
			}
		}
		// batches: one that falls back, then all-valid ones (same and different variant), multi-chunk
		v := gen.Variant(rng, -1)
		mkBatch(v, []int{5, 8, 64}[rng.Intn(3)], 1+rng.Intn(2), rng.Intn(2) == 0, "batch-fallback")
		mkBatch(v, []int{4, 7, 64, 68}[rng.Intn(4)], 0, rng.Intn(2) == 0, "batch-valid")
		mkBatch(gen.Variant(rng, -1), []int{4, 9, 33}[rng.Intn(3)], 0, false, "batch-valid")
		if g%4 == 0 {
			mkBatch(ref.Variant{Pure: true}, 130, 1, false, "batch-multichunk-fallback")
			mkBatch(ref.Variant{Pure: true}, 130, 0, false, "batch-multichunk-valid")
		}
		// default entropy source (rand == nil): deterministic verdicts, coherent keys
		{
			c := &Call{Op: "batch", Class: "batch-nil-rand", Zip: false}
			vfields(c, ref.Variant{Pure: true})
			for k := 0; k < 6; k++ {
				t := gen.Honest(rng, 0)
				if k == 3 && g%2 == 0 {
					t.Sig[5] ^= 2
				}
				c.Keys = append(c.Keys, hx(t.Pub))
				c.Msgs = append(c.Msgs, hx(t.Msg))
				c.Sigs = append(c.Sigs, hx(t.Sig))
			}
			emit(c)
			emit(&Call{Op: "genkey-nil", Class: "genkey-nil-rand"})
		}
		// failing calls next to succeeding ones
		h := gen.Honest(rng, 0)
		emit(&Call{Op: "verify-plain", Class: "verify-badkeylen(panic)", A: hx(h.Pub[:31]), B: hx(h.Msg), C: hx(h.Sig)})
		emit(&Call{Op: "verify-plain", Class: "verify-ok", A: hx(h.Pub), B: hx(h.Msg), C: hx(h.Sig)})
		emit(&Call{Op: "verify-plain", Class: "verify-shortsig", A: hx(h.Pub), B: hx(h.Msg), C: hx(h.Sig[:63])})
		g32, _ := gen.Garbage32(rng)
		emit(&Call{Op: "verify-plain", Class: "verify-garbage-key", A: hx(g32), B: hx(h.Msg), C: hx(h.Sig)})
		for {
			u, _ := gen.Garbage32(rng)
			if _, ok := ref.Decode(u); !ok {
				emit(&Call{Op: "verify-plain", Class: "verify-undecodable-key", A: hx(u), B: hx(h.Msg), C: hx(h.Sig)})
				bs := append(append([]byte(nil), u...), h.Sig[32:]...)
				emit(&Call{Op: "verify-plain", Class: "verify-undecodable-R", A: hx(h.Pub), B: hx(h.Msg), C: hx(bs)})
				emit(&Call{Op: "convpub", Class: "convpub-undecodable", A: hx(u)})
				break
			}
		}
		emit(&Call{Op: "verify", Class: "verify-longctx(panic)", A: hx(h.Pub), B: hx(h.Msg), C: hx(h.Sig), Ctx: hx(gen.RandBytes(rng, 256))})
		emit(&Call{Op: "verify", Class: "verify-badhash(panic)", A: hx(h.Pub), B: hx(h.Msg), C: hx(h.Sig), Hash: int(crypto.SHA256)})
		emit(&Call{Op: "sign", Class: "sign-longctx(err)", A: hx(gen.Seed(rng)), B: hx(h.Msg), Ctx: hx(gen.RandBytes(rng, 300))})
		emit(&Call{Op: "keygen", Class: "keygen-badlen(panic)", A: hx(gen.RandBytes(rng, 31))})
		emit(&Call{Op: "keygen", Class: "keygen", A: hx(gen.Seed(rng))})
		// small-order and mixed-order inputs next to honest ones
		t := gen.SmallKey(rng, so[rng.Intn(14)], gen.RandBelow(rng, ref.L), rng.Intn(8), -1)
		verifyBoth(t.Pub, t.Msg, t.Sig, t.V, "smallkey")
		t = gen.Torsion(rng, rng.Intn(8), rng.Intn(8), false, false, -1)
		verifyBoth(t.Pub, t.Msg, t.Sig, t.V, "torsion")
		t = gen.NoncanonR(rng, so[rng.Intn(14)], -1)
		verifyBoth(t.Pub, t.Msg, t.Sig, t.V, "noncanonR")
		// X25519: generic, base point, low order, bad length
		sc := gen.RandBytes(rng, 32)
		pts, _ := gen.XPoints(rng)
		emit(&Call{Op: "x25519", Class: "x25519-generic", A: hx(sc), B: hx(gen.RandBytes(rng, 32))})
		emit(&Call{Op: "x25519base", Class: "x25519-base", A: hx(sc)})
		emit(&Call{Op: "x25519", Class: "x25519-loworder(err)", A: hx(sc), B: hx(pts[rng.Intn(8)])})
		emit(&Call{Op: "x25519", Class: "x25519-badlen(err)", A: hx(sc[:31]), B: hx(gen.Nine)})
		emit(&Call{Op: "x25519", Class: "x25519-nine-copy", A: hx(sc), B: hx(gen.Nine)})
		// key objects and conversions
		s1, s2 := gen.Seed(rng), gen.Seed(rng)
		emit(&Call{Op: "genkey", Class: "genkey", A: hx(append(append([]byte(nil), s1...), 1, 2, 3))})
		emit(&Call{Op: "genkey", Class: "genkey-short(err)", A: hx(s1[:20])})
		emit(&Call{Op: "keyobj", Class: "keyobj", A: hx(s1), B: hx(s2)})
		emit(&Call{Op: "keyobj", Class: "keyobj-equal", A: hx(s1), B: hx(s1)})
		emit(&Call{Op: "convpriv", Class: "convpriv", A: hx(s1)})
		emit(&Call{Op: "convpub", Class: "convpub", A: hx(g32)})
		emit(&Call{Op: "convpub", Class: "convpub-so", A: hx(so[rng.Intn(14)])})
	}
	return n
}
