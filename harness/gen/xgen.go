package gen

import (
	"bytes"
	"math/big"
	"math/rand"

	"github.com/oasisprotocol/ed25519/verifh/ref"
)

var Nine = func() []byte { b := make([]byte, 32); b[0] = 9; return b }()

// hostile scalars for the signed radix-16 recoding of 255-bit clamped values
func XScalars(rng *rand.Rand) [][]byte {
	var out [][]byte
	for _, f := range []byte{0x00, 0xff, 0x77, 0x88, 0x99, 0x78, 0x87, 0x80, 0x08, 0xf0, 0x0f, 0x7f, 0xf7, 0x8f, 0xf8} {
		b := bytes.Repeat([]byte{f}, 32)
		out = append(out, b)
	}
	// runs of nibbles 7/8/9/f of every length at every nibble offset (carry chains)
	for _, nib := range []byte{7, 8, 9, 0xf} {
		for i := 0; i < 6; i++ {
			off := rng.Intn(64)
			l := 1 + rng.Intn(64-off)
			b := RandBytes(rng, 32)
			if rng.Intn(2) == 0 {
				b = make([]byte, 32)
			}
			for k := off; k < off+l; k++ {
				if k%2 == 0 {
					b[k/2] = b[k/2]&0xf0 | nib
				} else {
					b[k/2] = b[k/2]&0x0f | nib<<4
				}
			}
			out = append(out, b)
		}
	}
	// single-bit scalars
	for i := 0; i < 8; i++ {
		b := make([]byte, 32)
		bit := rng.Intn(256)
		b[bit/8] = 1 << uint(bit%8)
		out = append(out, b)
	}
	// around multiples of L and powers of two
	for _, base := range []*big.Int{ref.L, new(big.Int).Lsh(ref.L, 1), new(big.Int).Lsh(ref.L, 2), new(big.Int).Lsh(ref.L, 3), P2_252, new(big.Int).Lsh(One, 254), P2_255, P2_256} {
		for d := int64(-9); d <= 9; d += 3 {
			x := new(big.Int).Add(base, big.NewInt(d))
			if x.Sign() >= 0 && x.Cmp(P2_256) < 0 {
				out = append(out, ref.LEBytes(x, 32))
			}
		}
	}
	for i := 0; i < 8; i++ {
		out = append(out, RandBytes(rng, 32))
	}
	return out
}

func XPoints(rng *rand.Rand) ([][]byte, []string) {
	var pts [][]byte
	var cls []string
	add := func(b []byte, c string) { pts = append(pts, b); cls = append(cls, c) }
	// low order u-coordinates derived from the torsion points (u = (1+y)/(1-y)), plus 0, 1, p-1 and non-canonical twins
	for i := 0; i < 8; i++ {
		u := ref.LEInt(ref.EdYToMontU(ref.Tors[i].Y))
		add(ref.LEBytes(u, 32), "low-order")
		up := new(big.Int).Add(u, ref.P)
		if up.BitLen() <= 255 {
			add(ref.LEBytes(up, 32), "low-order-noncanon")
		}
		t := ref.LEBytes(u, 32)
		t[31] |= 0x80
		add(t, "low-order-topbit")
	}
	for _, d := range []int64{-2, -1, 0, 1, 2} {
		add(ref.LEBytes(new(big.Int).Add(ref.P, big.NewInt(d)), 32), "u-near-p")
	}
	add(ref.LEBytes(new(big.Int).Sub(P2_255, One), 32), "u=2^255-1")
	add(bytes.Repeat([]byte{0xff}, 32), "u=2^256-1")
	for i := 0; i < 6; i++ {
		add(RandBytes(rng, 32), "random")
	}
	t := RandBytes(rng, 32)
	t[31] |= 0x80
	add(t, "random-topbit")
	add(append([]byte(nil), Nine...), "nine-copy")
	return pts, cls
}

// specialYs: y in {0, 1, 2, p-1, p, p+1 (== 1), p+18, 2^255-1 ...} with both sign bits
func SpecialKeys() ([][]byte, []string) {
	var ks [][]byte
	var cs []string
	add := func(y *big.Int, c string) {
		for s := 0; s < 2; s++ {
			b := ref.LEBytes(y, 32)
			b[31] |= byte(s) << 7
			ks = append(ks, b)
			cs = append(cs, c)
		}
	}
	for i := int64(0); i < 19; i++ {
		add(new(big.Int).Add(ref.P, big.NewInt(i)), "y>=p")
		add(big.NewInt(i), "y<19")
	}
	add(new(big.Int).Sub(ref.P, One), "y=p-1")
	add(new(big.Int).Sub(ref.P, Two), "y=p-2")
	add(new(big.Int).Sub(P2_255, One), "y=2^255-1")
	for _, e := range ref.SmallOrderEncodings() {
		ks = append(ks, e)
		cs = append(cs, "small-order")
	}
	return ks, cs
}

// SmallXKeys returns every encoding (both y roots, both sign bits) of the curve points whose
// x coordinate is tiny in absolute value or sits next to a limb boundary: x, p-x for x in
// [1, 512) and 2^k-1, 2^k, 2^k+1 for the limb boundaries of both layouts. These are the
// strings whose square root (or its negation) is held internally as p+k, i.e. where the
// parity of an unreduced limb differs from the parity of the residue (eighth seed wave).
// y^2 = (1 + x^2)/(1 - d x^2) follows from -x^2 + y^2 = 1 + d x^2 y^2.
func SmallXKeys() ([][]byte, []string) {
	var ks [][]byte
	var cs []string
	xs := []*big.Int{}
	for i := int64(1); i < 512; i++ {
		xs = append(xs, big.NewInt(i))
	}
	for _, k := range []uint{25, 26, 51, 102, 127, 128, 153, 204, 230, 254} {
		b := new(big.Int).Lsh(One, k)
		xs = append(xs, new(big.Int).Sub(b, One), b, new(big.Int).Add(b, One))
	}
	for _, x := range xs {
		x2 := new(big.Int).Mul(x, x)
		x2.Mod(x2, ref.P)
		num := new(big.Int).Add(x2, One)
		den := new(big.Int).Mul(ref.D, x2)
		den.Sub(One, den).Mod(den, ref.P)
		den.ModInverse(den, ref.P)
		y2 := num.Mul(num, den)
		y2.Mod(y2, ref.P)
		y := new(big.Int).ModSqrt(y2, ref.P)
		if y == nil {
			continue
		}
		for _, yy := range []*big.Int{y, new(big.Int).Sub(ref.P, y)} {
			for s := 0; s < 2; s++ {
				b := ref.LEBytes(yy, 32)
				b[31] |= byte(s) << 7
				ks = append(ks, b)
				cs = append(cs, "small-|x|")
			}
		}
	}
	return ks, cs
}
