// Package gen holds the constructive workload families shared by the
// monitors.  Everything is built with the big-integer model (package ref),
// never with the library under test.
package gen

import (
	"crypto/sha512"
	"math/big"
	"math/rand"

	"github.com/oasisprotocol/ed25519/verifh/ref"
)

var (
	One    = big.NewInt(1)
	Two    = big.NewInt(2)
	P2_252 = new(big.Int).Lsh(One, 252)
	P2_253 = new(big.Int).Lsh(One, 253)
	P2_255 = new(big.Int).Lsh(One, 255)
	P2_256 = new(big.Int).Lsh(One, 256)
	P2_128 = new(big.Int).Lsh(One, 128)
)

func RandBytes(rng *rand.Rand, n int) []byte {
	b := make([]byte, n)
	rng.Read(b)
	return b
}

func RandBelow(rng *rand.Rand, lim *big.Int) *big.Int { return new(big.Int).Rand(rng, lim) }

// RandScalar is a uniformly random non-zero scalar below L.
func RandScalar(rng *rand.Rand) *big.Int {
	for {
		x := RandBelow(rng, ref.L)
		if x.Sign() != 0 {
			return x
		}
	}
}

// MsgLens are the message lengths of W-honest (SHA-512 block boundaries).
var MsgLens = []int{0, 1, 31, 32, 33, 63, 64, 65, 111, 112, 113, 127, 128, 129, 255, 256, 1000, 5000}

// CtxLens are context lengths used for ctx (>=1) and ph (>=0).
var CtxLens = []int{0, 1, 2, 31, 32, 33, 127, 128, 254, 255}

func Msg(rng *rand.Rand) []byte {
	if rng.Intn(4) == 0 {
		return RandBytes(rng, rng.Intn(200))
	}
	return RandBytes(rng, MsgLens[rng.Intn(len(MsgLens))])
}

// Seed returns structured or random 32-byte seeds.
func Seed(rng *rand.Rand) []byte {
	s := make([]byte, 32)
	switch rng.Intn(12) {
	case 0: // all zero
	case 1:
		for i := range s {
			s[i] = 0xff
		}
	case 2:
		s[rng.Intn(32)] = 1 << uint(rng.Intn(8))
	default:
		rng.Read(s)
	}
	return s
}

// Variant picks pure / ctx / ph with boundary-heavy context lengths.
// which: 0 pure, 1 ctx, 2 ph, -1 random.
func Variant(rng *rand.Rand, which int) ref.Variant {
	if which < 0 {
		which = rng.Intn(3)
	}
	switch which {
	case 0:
		return ref.Variant{Pure: true}
	case 1:
		l := CtxLens[1+rng.Intn(len(CtxLens)-1)]
		if rng.Intn(3) == 0 {
			l = 1 + rng.Intn(255)
		}
		return ref.Variant{Ctx: RandBytes(rng, l)}
	}
	l := CtxLens[rng.Intn(len(CtxLens))]
	if rng.Intn(3) == 0 {
		l = rng.Intn(256)
	}
	return ref.Variant{Ph: true, Ctx: RandBytes(rng, l)}
}

func VariantName(v ref.Variant) string {
	switch {
	case v.Pure:
		return "pure"
	case v.Ph:
		return "ph"
	}
	return "ctx"
}

// MsgFor returns a message suitable for the variant (64-byte digest for ph).
func MsgFor(rng *rand.Rand, v ref.Variant) []byte {
	m := Msg(rng)
	if v.Ph {
		d := sha512.Sum512(m)
		return d[:]
	}
	return m
}

// KeyPoint is a point with known decomposition [K]B + Tors[T] and one of
// its encodings.
type KeyPoint struct {
	K   *big.Int
	T   int
	Pt  ref.Point
	Enc []byte
	// EncKind: canon | noncanon (y+p) | signbit (x==0, sign set) | noncanon+signbit
	EncKind string
}

func MakePoint(k *big.Int, t int) ref.Point {
	return ref.Add(ref.ScalarMult(k, ref.B), ref.Tors[t&7])
}

// AllEncodings lists (encoding, kind) of the point.
func AllEncodings(p ref.Point) ([][]byte, []string) {
	encs := ref.Encodings(p)
	canon := ref.Encode(p)
	kinds := make([]string, len(encs))
	for i, e := range encs {
		k := "canon"
		y := ref.LEInt(append(append([]byte(nil), e[:31]...), e[31]&0x7f))
		nc := y.Cmp(ref.P) >= 0
		sb := (e[31] >> 7) != (canon[31] >> 7)
		switch {
		case nc && sb:
			k = "noncanon+signbit"
		case nc:
			k = "noncanon"
		case sb:
			k = "signbit"
		}
		kinds[i] = k
	}
	return encs, kinds
}

func NewKeyPoint(rng *rand.Rand, k *big.Int, t int, encIdx int) KeyPoint {
	pt := MakePoint(k, t)
	encs, kinds := AllEncodings(pt)
	if encIdx < 0 {
		encIdx = rng.Intn(len(encs))
	}
	encIdx %= len(encs)
	return KeyPoint{K: k, T: t & 7, Pt: pt, Enc: encs[encIdx], EncKind: kinds[encIdx]}
}

// Triple is one verification input with its provenance.
type Triple struct {
	Pub, Msg, Sig []byte
	V             ref.Variant
	Family        string
	Tags          []string
}

func (t Triple) Clone() Triple {
	c := t
	c.Pub = append([]byte(nil), t.Pub...)
	c.Msg = append([]byte(nil), t.Msg...)
	c.Sig = append([]byte(nil), t.Sig...)
	c.Tags = append([]string(nil), t.Tags...)
	return c
}

// Honest: model-signed triple from a seed.
func Honest(rng *rand.Rand, which int) Triple {
	v := Variant(rng, which)
	seed := Seed(rng)
	msg := MsgFor(rng, v)
	pub, sig := ref.Sign(seed, msg, v)
	return Triple{Pub: pub, Msg: msg, Sig: sig, V: v, Family: "honest"}
}

// Torsion: A = [a]B + T_i, R = [r]B + T_j, all encodings selectable.
// aZero / rZero make the key / R a pure torsion point.
func Torsion(rng *rand.Rand, i, j int, aZero, rZero bool, which int) Triple {
	v := Variant(rng, which)
	a, r := RandScalar(rng), RandScalar(rng)
	if aZero {
		a = big.NewInt(0)
	}
	if rZero {
		r = big.NewInt(0)
	}
	A := NewKeyPoint(rng, a, i, -1)
	R := NewKeyPoint(rng, r, j, -1)
	msg := MsgFor(rng, v)
	sig := ref.SignWith(a, r, A.Enc, R.Enc, msg, v)
	return Triple{Pub: A.Enc, Msg: msg, Sig: sig, V: v, Family: "torsion",
		Tags: []string{"A:" + A.EncKind, "R:" + R.EncKind}}
}

// SmallKey: key = a small-order encoding, arbitrary S, R = [S mod L]B + T_j.
// The cofactored equation holds for every S (also S >= L when reduced).
func SmallKey(rng *rand.Rand, keyEnc []byte, S *big.Int, j int, which int) Triple {
	v := Variant(rng, which)
	R := NewKeyPoint(rng, ref.ModL(S), j, -1)
	msg := MsgFor(rng, v)
	sig := append(append([]byte(nil), R.Enc...), ref.LEBytes(S, 32)...)
	return Triple{Pub: append([]byte(nil), keyEnc...), Msg: msg, Sig: sig, V: v, Family: "smallkey",
		Tags: []string{"R:" + R.EncKind}}
}

// NoncanonR: honest key, R = any encoding of a torsion point, S = h*a.
func NoncanonR(rng *rand.Rand, rEnc []byte, which int) Triple {
	v := Variant(rng, which)
	a := RandScalar(rng)
	A := NewKeyPoint(rng, a, 0, 0)
	msg := MsgFor(rng, v)
	sig := ref.SignWith(a, big.NewInt(0), A.Enc, rEnc, msg, v)
	return Triple{Pub: A.Enc, Msg: msg, Sig: sig, V: v, Family: "noncanonR"}
}

// SBound is W-Sbound: scalar-half values at every comparison boundary.
func SBound(rng *rand.Rand) []*big.Int {
	L := ref.L
	var out []*big.Int
	add := func(x *big.Int) {
		if x.Sign() >= 0 && x.Cmp(P2_256) < 0 {
			out = append(out, new(big.Int).Set(x))
		}
	}
	add(big.NewInt(0))
	add(big.NewInt(1))
	for d := int64(-2); d <= 2; d++ {
		add(new(big.Int).Add(P2_252, big.NewInt(d)))
		add(new(big.Int).Add(L, big.NewInt(d)))
		add(new(big.Int).Add(P2_253, big.NewInt(d)))
		add(new(big.Int).Add(P2_255, big.NewInt(d)))
		add(new(big.Int).Add(P2_256, big.NewInt(d)))
	}
	// L +/- 2^(64w) and +/- 2^(8b) : every word / byte of the comparison
	for b := uint(0); b < 256; b += 8 {
		add(new(big.Int).Add(L, new(big.Int).Lsh(One, b)))
		add(new(big.Int).Sub(L, new(big.Int).Lsh(One, b)))
	}
	// L with one 64-bit word replaced by 0 / all ones
	for w := uint(0); w < 4; w++ {
		mask := new(big.Int).Lsh(new(big.Int).Sub(new(big.Int).Lsh(One, 64), One), 64*w)
		add(new(big.Int).AndNot(L, mask))
		add(new(big.Int).Or(L, mask))
	}
	// mixed-direction values for a word-wise (or byte-wise) comparison against
	// L: the part above a boundary is larger than L's while the part below is
	// smaller (S > L), and the mirror image (S < L)
	for _, off := range []uint{32, 64, 96, 128, 160, 192, 224, 248} {
		m := new(big.Int).Lsh(One, off)
		hi := new(big.Int).Rsh(L, off)
		lo := new(big.Int).Mod(L, m)
		up := new(big.Int).Lsh(new(big.Int).Add(hi, One), off)
		add(up)
		if lo.Sign() > 0 {
			add(new(big.Int).Add(up, RandBelow(rng, lo)))
			add(new(big.Int).Add(up, new(big.Int).Sub(lo, One)))
		}
		// only the word just above the boundary differs (+1 .. +3), everything below smaller
		add(new(big.Int).Add(new(big.Int).Lsh(new(big.Int).Add(hi, big.NewInt(int64(1+rng.Intn(3)))), off), RandBelow(rng, new(big.Int).Add(lo, One))))
		if hi.Sign() > 0 {
			dn := new(big.Int).Lsh(new(big.Int).Sub(hi, One), off)
			add(new(big.Int).Add(dn, new(big.Int).Sub(m, One)))
			add(new(big.Int).Add(dn, RandBelow(rng, m)))
		}
	}
	// top-byte classes with random lower bytes
	for _, tb := range []byte{0x00, 0x01, 0x0f, 0x10, 0x11, 0x14, 0x1f, 0x20, 0x30, 0x40, 0x7f, 0x80, 0x90, 0xe0, 0xf0, 0xff} {
		b := RandBytes(rng, 32)
		b[31] = tb
		add(ref.LEInt(b))
		// and with the lower part equal to L's lower part +/- 1
		lb := ref.LEBytes(L, 32)
		lb[31] = tb
		add(ref.LEInt(lb))
	}
	// S + kL
	base := RandBelow(rng, L)
	for k := int64(1); k <= 15; k++ {
		add(new(big.Int).Add(base, new(big.Int).Mul(L, big.NewInt(k))))
	}
	// values in the top slice [2^252, L)
	delta := new(big.Int).Sub(L, P2_252)
	for i := 0; i < 8; i++ {
		add(new(big.Int).Add(P2_252, RandBelow(rng, delta)))
	}
	for i := 0; i < 4; i++ {
		add(RandBelow(rng, L))
		add(RandBelow(rng, P2_256))
	}
	return out
}

// SClass names the class of a scalar half for coverage tables.
func SClass(S *big.Int) string {
	switch {
	case S.Sign() == 0:
		return "S=0"
	case S.Cmp(P2_252) < 0:
		return "S<2^252"
	case S.Cmp(ref.L) < 0:
		return "2^252<=S<L"
	case S.Cmp(ref.L) == 0:
		return "S=L"
	case S.Cmp(P2_253) < 0:
		return "L<S<2^253"
	case S.Cmp(P2_255) < 0:
		return "2^253<=S<2^255"
	}
	return "S>=2^255"
}

// Garbage returns a hostile 32-byte string: random, undecodable-biased,
// y >= p, tiny y, y near p.
func Garbage32(rng *rand.Rand) ([]byte, string) {
	switch rng.Intn(8) {
	case 0:
		// y in [p, 2^255) with either sign bit
		y := new(big.Int).Add(ref.P, big.NewInt(int64(rng.Intn(19))))
		b := ref.LEBytes(y, 32)
		b[31] |= byte(rng.Intn(2)) << 7
		return b, "y>=p"
	case 1:
		y := big.NewInt(int64(rng.Intn(40)))
		b := ref.LEBytes(y, 32)
		b[31] |= byte(rng.Intn(2)) << 7
		return b, "tiny-y"
	case 2:
		y := new(big.Int).Sub(ref.P, big.NewInt(int64(1+rng.Intn(40))))
		b := ref.LEBytes(y, 32)
		b[31] |= byte(rng.Intn(2)) << 7
		return b, "y-near-p"
	case 3:
		b := make([]byte, 32)
		f := []byte{0x00, 0xff, 0x7f, 0x80, 0x01, 0xfe}[rng.Intn(6)]
		for i := range b {
			b[i] = f
		}
		b[rng.Intn(32)] ^= byte(rng.Intn(256))
		return b, "fill"
	}
	return RandBytes(rng, 32), "random"
}

// Perturbations of an accepted triple: single-bit flips in key, R, S, msg.
type Perturb struct {
	Where string // key | R | S | msg
	Bit   int
}

func ApplyPerturb(t Triple, p Perturb) Triple {
	c := t.Clone()
	switch p.Where {
	case "key":
		c.Pub[p.Bit/8] ^= 1 << uint(p.Bit%8)
	case "R":
		c.Sig[p.Bit/8] ^= 1 << uint(p.Bit%8)
	case "S":
		c.Sig[32+p.Bit/8] ^= 1 << uint(p.Bit%8)
	case "msg":
		if len(c.Msg) > 0 {
			b := p.Bit % (8 * len(c.Msg))
			c.Msg[b/8] ^= 1 << uint(b%8)
		}
	}
	c.Family = t.Family + "+flip-" + p.Where
	return c
}

// AllPerturbs lists every single-bit flip of key, R, S and (up to 64 bits
// of) the message.
func AllPerturbs(t Triple) []Perturb {
	var out []Perturb
	for b := 0; b < 256; b++ {
		out = append(out, Perturb{"key", b}, Perturb{"R", b}, Perturb{"S", b})
	}
	n := 8 * len(t.Msg)
	if n > 64 {
		n = 64
	}
	for b := 0; b < n; b++ {
		out = append(out, Perturb{"msg", b})
	}
	return out
}
