// Package ev holds what the monitors observed during one shard: event
// counts, class coverage, distinct non-trivial cases, samples, violation
// records and inconclusive notes.  It is written out as JSON for the driver.
package ev

import (
	"encoding/binary"
	"encoding/hex"
	"encoding/json"
	"fmt"
	"hash/fnv"
	"os"
	"sort"
	"strings"
	"sync"
)

type Violation struct {
	Property string                 `json:"property"`
	Sub      string                 `json:"sub"`    // which monitor
	Config   string                 `json:"config"` // build configuration id
	What     string                 `json:"what"`   // one-line description
	Sig      string                 `json:"sig"`    // stable signature for known-finding matching
	Case     map[string]interface{} `json:"case"`   // everything needed to replay
}

type Rec struct {
	mu           sync.Mutex
	Property     string                 `json:"property"`
	Config       string                 `json:"config"`
	Shard        string                 `json:"shard"`
	Seed         int64                  `json:"seed"`
	Evaluations  int64                  `json:"evaluations"`
	Classes      map[string]int64       `json:"classes"`
	Samples      []interface{}          `json:"samples"`
	Violations   []Violation            `json:"violations"`
	NViolations  int64                  `json:"n_violations"`
	Inconclusive []string               `json:"inconclusive"`
	Extra        map[string]interface{} `json:"extra"`
	distinct     map[uint64]struct{}
	maxSamples   int
	progress     *os.File
	violLog      *os.File
}

func New(prop, config, shard string, seed int64) *Rec {
	return &Rec{Property: prop, Config: config, Shard: shard, Seed: seed,
		Classes: map[string]int64{}, distinct: map[uint64]struct{}{}, maxSamples: 6,
		Extra: map[string]interface{}{}}
}

// SetProgress makes the recorder write the case about to be executed to a
// file first (sanitizer reports and fatal errors are process-fatal; the
// driver then has a replay file for the crash).
func (r *Rec) SetProgress(path string) {
	f, err := os.Create(path)
	if err == nil {
		r.progress = f
	}
	// violation records are also streamed to disk as they occur, so that a
	// later hang or crash of the shard does not lose them
	if v, err := os.Create(strings.TrimSuffix(path, ".about") + ".viol"); err == nil {
		r.violLog = v
	}
}

// About records the case that is about to run (overwrites the previous one).
func (r *Rec) About(c map[string]interface{}) {
	if r.progress == nil {
		return
	}
	b, _ := json.Marshal(c)
	r.mu.Lock()
	r.progress.Truncate(0)
	r.progress.WriteAt(b, 0)
	r.mu.Unlock()
}

// Eval counts one judged execution belonging to the given classes.
func (r *Rec) Eval(classes ...string) {
	r.mu.Lock()
	r.Evaluations++
	for _, c := range classes {
		r.Classes[c]++
	}
	r.mu.Unlock()
}

// Class counts class membership without counting an evaluation.
func (r *Rec) Class(c string, n int64) {
	r.mu.Lock()
	r.Classes[c] += n
	r.mu.Unlock()
}

// ClassMax keeps the maximum of a measured quantity.
func (r *Rec) ClassMax(c string, v int64) {
	r.mu.Lock()
	if v > r.Classes[c] {
		r.Classes[c] = v
	}
	r.mu.Unlock()
}

// Nontrivial registers a case that is non-trivial by the property's rule;
// distinctness is by the hash of the canonical key parts.
func (r *Rec) Nontrivial(parts ...[]byte) {
	h := fnv.New64a()
	var l [4]byte
	for _, p := range parts {
		binary.LittleEndian.PutUint32(l[:], uint32(len(p)))
		h.Write(l[:])
		h.Write(p)
	}
	r.mu.Lock()
	r.distinct[h.Sum64()] = struct{}{}
	r.mu.Unlock()
}

func (r *Rec) Sample(s interface{}) {
	r.mu.Lock()
	if len(r.Samples) < r.maxSamples {
		r.Samples = append(r.Samples, s)
	}
	r.mu.Unlock()
}

func (r *Rec) Violate(sub, what, sig string, c map[string]interface{}) {
	r.mu.Lock()
	r.NViolations++
	if len(r.Violations) < 25 {
		v := Violation{Property: r.Property, Sub: sub, Config: r.Config, What: what, Sig: sig, Case: c}
		r.Violations = append(r.Violations, v)
		if r.violLog != nil {
			if b, err := json.Marshal(v); err == nil {
				r.violLog.Write(append(b, '\n'))
				r.violLog.Sync()
			}
		}
	}
	r.mu.Unlock()
}

func (r *Rec) Inconc(s string) {
	r.mu.Lock()
	if len(r.Inconclusive) < 50 {
		r.Inconclusive = append(r.Inconclusive, s)
	}
	r.mu.Unlock()
}

func (r *Rec) SetExtra(k string, v interface{}) {
	r.mu.Lock()
	r.Extra[k] = v
	r.mu.Unlock()
}

// Write stores the record as <path> (JSON) and the distinct-case hashes as
// <path>.hashes (8 bytes each, sorted) so the driver can take the union
// across shards.
func (r *Rec) Write(path string) error {
	r.mu.Lock()
	defer r.mu.Unlock()
	hs := make([]uint64, 0, len(r.distinct))
	for h := range r.distinct {
		hs = append(hs, h)
	}
	sort.Slice(hs, func(i, j int) bool { return hs[i] < hs[j] })
	buf := make([]byte, 8*len(hs))
	for i, h := range hs {
		binary.LittleEndian.PutUint64(buf[8*i:], h)
	}
	if err := os.WriteFile(path+".hashes", buf, 0o644); err != nil {
		return err
	}
	type out struct {
		*Rec
		Distinct int `json:"distinct_nontrivial"`
	}
	b, err := json.MarshalIndent(out{r, len(hs)}, "", " ")
	if err != nil {
		return err
	}
	return os.WriteFile(path, b, 0o644)
}

func Hex(b []byte) string { return hex.EncodeToString(b) }

func UnHex(s string) []byte {
	b, err := hex.DecodeString(s)
	if err != nil {
		panic(fmt.Sprintf("bad hex %q", s))
	}
	return b
}
