//go:build verifmon

// Package mon holds the monitors installed on the VerifHook variables of the
// monitored build: every field, scalar and group routine call is judged
// against its big-integer specification.
package mon

import (
	"bytes"
	"fmt"
	"math/big"
	"sync"

	"github.com/oasisprotocol/ed25519/internal/curve25519"
	"github.com/oasisprotocol/ed25519/verifh/ev"
	"github.com/oasisprotocol/ed25519/verifh/ref"
)

type FE = curve25519.Bignum25519

var (
	Rec    *ev.Rec
	Config string

	envMu sync.Mutex
	env   = map[string]uint64{}
	cnt   = map[string]int64{}

	one = big.NewInt(1)
)

// FVal is the integer a limb vector denotes.
func FVal(a *FE) *big.Int {
	v := new(big.Int)
	off := uint(0)
	for i := 0; i < FieldLimbs; i++ {
		t := new(big.Int).SetUint64(uint64(a[i]))
		v.Add(v, t.Lsh(t, off))
		off += FieldBits[i]
	}
	return v
}

func FLimb(a *FE, i int) uint64 { return uint64(a[i]) }

func modp(x *big.Int) *big.Int { return new(big.Int).Mod(x, ref.P) }

func feq(a, b *big.Int) bool { return modp(a).Cmp(modp(b)) == 0 }

func limbs(a *FE) []uint64 {
	out := make([]uint64, FieldLimbs)
	for i := range out {
		out[i] = uint64(a[i])
	}
	return out
}

// Phase tags the operand envelope: "direct" while the layer workload drives
// the routines itself, "api" while real API executions drive them.
var Phase = "direct"

func note(fn string, operand string, a *FE) {
	envMu.Lock()
	for i := 0; i < FieldLimbs; i++ {
		k := Phase + "/" + fn + "/" + operand + "/limb" + [2]string{"even", "odd"}[i&1]
		if i == 0 {
			k = Phase + "/" + fn + "/" + operand + "/limb0"
		}
		if v := uint64(a[i]); v > env[k] {
			env[k] = v
		}
	}
	envMu.Unlock()
}

var sampled = map[string]int{}

// sampleOnce lets each monitor contribute a few of the calls it judged to
// the evidence samples.
func sampleOnce(k string) bool {
	envMu.Lock()
	defer envMu.Unlock()
	sampled[k]++
	return sampled[k] == 3
}

func count(k string) {
	envMu.Lock()
	cnt[k]++
	envMu.Unlock()
}

// Flush moves the envelope and the event counts into the record.
func Flush() {
	envMu.Lock()
	defer envMu.Unlock()
	for k, v := range env {
		Rec.ClassMax("max/envelope/"+k, int64(v))
	}
	for k, v := range cnt {
		Rec.Class("events/"+k, v)
	}
	cnt = map[string]int64{}
}

// EnvMax returns the largest limb seen so far for (phase, function, operand)
// over all limb classes.
func EnvMax(phase, fn, operand string) uint64 {
	envMu.Lock()
	defer envMu.Unlock()
	var m uint64
	for _, c := range []string{"limb0", "limbeven", "limbodd"} {
		if v := env[phase+"/"+fn+"/"+operand+"/"+c]; v > m {
			m = v
		}
	}
	return m
}

func fe(x interface{}) *FE {
	v, ok := x.(FE)
	if !ok {
		return nil
	}
	return &v
}

func violate(layer, fn, what string, c map[string]interface{}) {
	c["op"] = "layer"
	c["layer"] = layer
	c["fn"] = fn
	Rec.Violate(layer+"/"+fn, fn+": "+what, layer+"/"+fn, c)
}

func fieldCase(fn string, ops ...*FE) map[string]interface{} {
	c := map[string]interface{}{}
	for i, o := range ops {
		if o != nil {
			c[fmt.Sprintf("operand%d", i)] = limbs(o)
		}
	}
	return c
}

// FieldHook judges one call of package curve25519.
func FieldHook(name string, pre, post, ret []interface{}) {
	count("field/" + name)
	switch name {
	case "Add", "AddAfterBasic", "AddReduce", "Sub", "SubAfterBasic", "SubReduce", "Mul":
		a, b, out := fe(pre[1]), fe(pre[2]), fe(post[0])
		if a == nil || b == nil || out == nil {
			return
		}
		note(name, "a", a)
		note(name, "b", b)
		note(name, "out", out)
		va, vb := FVal(a), FVal(b)
		var want *big.Int
		switch name[:3] {
		case "Add":
			want = new(big.Int).Add(va, vb)
		case "Sub":
			want = new(big.Int).Sub(va, vb)
		default:
			want = new(big.Int).Mul(va, vb)
		}
		if !feq(FVal(out), want) {
			c := fieldCase(name, a, b)
			c["observed"] = limbs(out)
			violate("field", name, fmt.Sprintf("result %s != expected residue %s", modp(FVal(out)).Text(16), modp(want).Text(16)), c)
		}
		if (name == "Mul" || name == "SubAfterBasic") && sampleOnce("field/"+name+"/"+Phase) {
			Rec.Sample(map[string]interface{}{"monitored_call": name, "a_limbs": limbs(a), "b_limbs": limbs(b), "out_limbs": limbs(out), "residue": modp(want).Text(16), "phase": Phase})
		}
	case "Neg", "Square", "Copy", "Recip", "PowTwo252m3":
		a, out := fe(pre[1]), fe(post[0])
		if a == nil || out == nil {
			return
		}
		note(name, "a", a)
		note(name, "out", out)
		va := FVal(a)
		var want *big.Int
		switch name {
		case "Neg":
			want = new(big.Int).Neg(va)
		case "Square":
			want = new(big.Int).Mul(va, va)
		case "Copy":
			if *out != *a {
				violate("field", name, "copy differs", fieldCase(name, a))
			}
			return
		case "Recip":
			m := modp(va)
			if m.Sign() == 0 {
				want = big.NewInt(0)
			} else {
				want = new(big.Int).ModInverse(m, ref.P)
			}
		case "PowTwo252m3":
			e := new(big.Int).Lsh(one, 252)
			e.Sub(e, big.NewInt(3))
			want = new(big.Int).Exp(modp(va), e, ref.P)
		}
		if !feq(FVal(out), want) {
			c := fieldCase(name, a)
			c["observed"] = limbs(out)
			violate("field", name, fmt.Sprintf("result %s != expected residue %s", modp(FVal(out)).Text(16), modp(want).Text(16)), c)
		}
	case "SquareTimes":
		a, out := fe(pre[1]), fe(post[0])
		n, _ := pre[2].(int)
		if a == nil || out == nil {
			return
		}
		note(name, "a", a)
		note(name, "out", out)
		e := new(big.Int).Lsh(one, uint(n))
		want := new(big.Int).Exp(modp(FVal(a)), e, ref.P)
		if !feq(FVal(out), want) {
			c := fieldCase(name, a)
			c["count"] = n
			c["observed"] = limbs(out)
			violate("field", name, fmt.Sprintf("in^(2^%d): result %s != %s", n, modp(FVal(out)).Text(16), want.Text(16)), c)
		}
	case "Expand":
		out := fe(post[0])
		in, _ := pre[1].([]byte)
		if out == nil || len(in) < 32 {
			return
		}
		note(name, "out", out)
		c := append([]byte(nil), in[:32]...)
		c[31] &= 0x7f
		if FVal(out).Cmp(ref.LEInt(c)) != 0 && !feq(FVal(out), ref.LEInt(c)) {
			violate("field", name, "parsed value differs from the low 255 bits of the input", map[string]interface{}{"in": ev.Hex(in), "observed": limbs(out)})
		}
	case "Contract":
		in := fe(pre[1])
		out, _ := post[0].([]byte)
		if in == nil || len(out) < 32 {
			return
		}
		note(name, "in", in)
		want := ref.LEBytes(modp(FVal(in)), 32)
		if !bytes.Equal(out[:32], want) {
			c := fieldCase(name, in)
			c["observed"] = ev.Hex(out[:32])
			violate("field", name, fmt.Sprintf("serialised %x, canonical value %x", out[:32], want), c)
		}
	case "SwapConditional":
		a0, b0, a1, b1 := fe(pre[0]), fe(pre[1]), fe(post[0]), fe(post[1])
		var sw uint64
		switch x := pre[2].(type) {
		case uint64:
			sw = x
		case uint32:
			sw = uint64(x)
		}
		if a0 == nil || b0 == nil || a1 == nil || b1 == nil {
			return
		}
		okNo := *a1 == *a0 && *b1 == *b0
		okYes := *a1 == *b0 && *b1 == *a0
		if (sw == 0 && !okNo) || (sw == 1 && !okYes) {
			c := fieldCase(name, a0, b0)
			c["iswap"] = sw
			violate("field", name, "conditional swap is neither the requested swap nor a no-op", c)
		}
	}
}
