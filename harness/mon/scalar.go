//go:build verifmon

package mon

import (
	"bytes"
	"fmt"
	"math/big"

	"github.com/oasisprotocol/ed25519/internal/modm"
	"github.com/oasisprotocol/ed25519/verifh/ev"
	"github.com/oasisprotocol/ed25519/verifh/ref"
)

type SC = modm.Bignum256

// SVal is the integer denoted by all limbs of a scalar.
func SVal(a *SC) *big.Int { return SValN(a, modm.LimbSize-1) }

// SValN is the integer denoted by limbs 0..top.
func SValN(a *SC, top int) *big.Int {
	v := new(big.Int)
	for i := 0; i <= top && i < modm.LimbSize; i++ {
		t := new(big.Int).SetUint64(uint64(a[i]))
		v.Add(v, t.Lsh(t, uint(i*modm.BitsPerLimb)))
	}
	return v
}

// SSet writes x (< 2^256) into limbs, raw (no reduction).
func SSet(x *big.Int) SC {
	var s SC
	mask := new(big.Int).Sub(new(big.Int).Lsh(one, uint(modm.BitsPerLimb)), one)
	t := new(big.Int).Set(x)
	for i := 0; i < modm.LimbSize; i++ {
		s[i] = modm.Element(new(big.Int).And(t, mask).Uint64())
		t.Rsh(t, uint(modm.BitsPerLimb))
	}
	return s
}

func sc(x interface{}) *SC {
	v, ok := x.(SC)
	if !ok {
		return nil
	}
	return &v
}

func slimbs(a *SC) []uint64 {
	out := make([]uint64, modm.LimbSize)
	for i := range out {
		out[i] = uint64(a[i])
	}
	return out
}

func canonicalLimbs(a *SC) bool {
	for i := 0; i < modm.LimbSize; i++ {
		if uint64(a[i])>>uint(modm.BitsPerLimb) != 0 {
			return false
		}
	}
	return true
}

func modL(x *big.Int) *big.Int { return new(big.Int).Mod(x, ref.L) }

// ScalarHook judges one call of package modm.
func ScalarHook(name string, pre, post, ret []interface{}) {
	count("scalar/" + name)
	switch name {
	case "Expand", "ExpandRaw":
		out := sc(post[0])
		in, _ := pre[1].([]byte)
		if out == nil {
			return
		}
		x := ref.LEInt(in)
		want := x
		cls := fmt.Sprintf("%s/len=%d", name, len(in))
		if name == "Expand" && len(in) >= 32 {
			want = modL(x)
			q := new(big.Int).Div(x, ref.L)
			Rec.ClassMax("max/scalar/Expand/quotient-bits", int64(q.BitLen()))
		}
		count("scalar-class/" + cls)
		if sampleOnce("scalar/" + cls + "/" + Phase) {
			Rec.Sample(map[string]interface{}{"monitored_call": name, "in": ev.Hex(in), "out_value": SVal(out).Text(16), "quotient_bits": new(big.Int).Div(x, ref.L).BitLen(), "phase": Phase})
		}
		if SVal(out).Cmp(want) != 0 || !canonicalLimbs(out) {
			violate("scalar", name, fmt.Sprintf("input %x: result %s, expected %s", in, SVal(out).Text(16), want.Text(16)),
				map[string]interface{}{"in": ev.Hex(in), "observed": slimbs(out)})
		}
	case "Contract":
		in := sc(pre[1])
		out, _ := post[0].([]byte)
		if in == nil || len(out) < 32 {
			return
		}
		v := SVal(in)
		if v.BitLen() > 256 {
			return // not representable, outside the callers' domain
		}
		if !bytes.Equal(out[:32], ref.LEBytes(v, 32)) {
			violate("scalar", name, fmt.Sprintf("serialised %x, value %s", out[:32], v.Text(16)), map[string]interface{}{"in": slimbs(in), "observed": ev.Hex(out[:32])})
		}
	case "Add", "Mul":
		x, y, r := sc(pre[1]), sc(pre[2]), sc(post[0])
		if x == nil || y == nil || r == nil {
			return
		}
		vx, vy := SVal(x), SVal(y)
		var want *big.Int
		if name == "Add" {
			want = modL(new(big.Int).Add(vx, vy))
		} else {
			want = modL(new(big.Int).Mul(vx, vy))
		}
		if vx.Cmp(ref.L) >= 0 || vy.Cmp(ref.L) >= 0 {
			count("scalar-class/" + name + "/unreduced-operand")
			if name == "Add" {
				return // Add is specified for reduced operands only
			}
		}
		if SVal(r).Cmp(want) != 0 || !canonicalLimbs(r) {
			violate("scalar", name, fmt.Sprintf("x=%s y=%s: result %s, expected %s", vx.Text(16), vy.Text(16), SVal(r).Text(16), want.Text(16)),
				map[string]interface{}{"x": slimbs(x), "y": slimbs(y), "observed": slimbs(r)})
		}
	case "ContractWindow4":
		in := sc(pre[1])
		rp, ok := post[0].([64]int8)
		if in == nil || !ok {
			return
		}
		sum := new(big.Int)
		bad := ""
		for i := 63; i >= 0; i-- {
			sum.Lsh(sum, 4)
			sum.Add(sum, big.NewInt(int64(rp[i])))
			if rp[i] < -8 || rp[i] > 8 {
				bad = fmt.Sprintf("digit %d = %d outside [-8,8]", i, rp[i])
			}
			envMu.Lock()
			cnt[fmt.Sprintf("w4digit/pos%02d/%+d", i, rp[i])]++
			envMu.Unlock()
		}
		if sum.Cmp(SVal(in)) != 0 {
			bad = fmt.Sprintf("digits represent %s, input is %s", sum.Text(16), SVal(in).Text(16))
		}
		if bad != "" {
			violate("scalar", name, bad, map[string]interface{}{"in": slimbs(in), "digits": fmt.Sprint(rp)})
		}
	case "ContractSlidingWindow":
		in := sc(pre[1])
		rp, ok := post[0].([256]int8)
		w, _ := pre[2].(uint)
		if in == nil || !ok {
			return
		}
		v := SVal(in)
		m := int8((1 << (w - 1)) - 1)
		sum := new(big.Int)
		bad := ""
		for i := 255; i >= 0; i-- {
			sum.Lsh(sum, 1)
			sum.Add(sum, big.NewInt(int64(rp[i])))
			d := rp[i]
			if d != 0 {
				if d < -m || d > m || d&1 == 0 {
					bad = fmt.Sprintf("digit %d = %d not an odd value in [-%d,%d]", i, d, m, m)
				}
				zone := "low"
				if i >= 170 {
					zone = "high"
				} else if i >= 85 {
					zone = "mid"
				}
				envMu.Lock()
				cnt[fmt.Sprintf("swdigit/w%d/%s/%+d", w, zone, d)]++
				envMu.Unlock()
			}
		}
		if sum.Cmp(v) != 0 {
			bad = fmt.Sprintf("window %d digits represent %s, input is %s", w, sum.Text(16), v.Text(16))
		}
		if bad != "" {
			violate("scalar", name, bad, map[string]interface{}{"in": slimbs(in), "window": w, "digits": fmt.Sprint(rp)})
		}
	case "SubVartime":
		out0, a, b, out := sc(pre[0]), sc(pre[1]), sc(pre[2]), sc(post[0])
		ls, _ := pre[3].(int)
		if a == nil || b == nil || out == nil || out0 == nil {
			return
		}
		va, vb := SValN(a, ls), SValN(b, ls)
		if va.Cmp(vb) < 0 {
			count("scalar-class/SubVartime/a<b(outside contract)")
			return
		}
		bad := ""
		if SValN(out, ls).Cmp(new(big.Int).Sub(va, vb)) != 0 {
			bad = fmt.Sprintf("limbs 0..%d: %s - %s gave %s", ls, va.Text(16), vb.Text(16), SValN(out, ls).Text(16))
		}
		for i := ls + 1; i < modm.LimbSize; i++ {
			if out[i] != out0[i] {
				bad = fmt.Sprintf("limb %d above limbSize %d was modified", i, ls)
			}
		}
		if bad != "" {
			violate("scalar", name, bad, map[string]interface{}{"a": slimbs(a), "b": slimbs(b), "limbSize": ls, "observed": slimbs(out)})
		}
	case "LessThanVartime", "LessThanOrEqualVartime":
		a, b := sc(pre[0]), sc(pre[1])
		ls, _ := pre[2].(int)
		got, _ := ret[0].(bool)
		if a == nil || b == nil || ls < 0 || ls >= modm.LimbSize {
			return
		}
		c := SValN(a, ls).Cmp(SValN(b, ls))
		want := c < 0
		if name == "LessThanOrEqualVartime" {
			want = c <= 0
		}
		if got != want {
			violate("scalar", name, fmt.Sprintf("limbs 0..%d: a=%s b=%s returned %v", ls, SValN(a, ls).Text(16), SValN(b, ls).Text(16), got),
				map[string]interface{}{"a": slimbs(a), "b": slimbs(b), "limbSize": ls})
		}
	case "IsZeroVartime", "IsOneVartime", "IsAtMost128bitsVartime":
		a := sc(pre[0])
		got, _ := ret[0].(bool)
		if a == nil {
			return
		}
		v := SVal(a)
		var want bool
		switch name {
		case "IsZeroVartime":
			want = v.Sign() == 0
		case "IsOneVartime":
			want = v.Cmp(one) == 0
		default:
			want = v.BitLen() <= 128
		}
		if got != want {
			violate("scalar", name, fmt.Sprintf("value %s returned %v", v.Text(16), got), map[string]interface{}{"a": slimbs(a)})
		}
	}
}
