//go:build verifmon && amd64 && !force32bit

package mon

// 5 x 51-bit field limbs, 5 x 56-bit scalar limbs
const (
	FieldLimbs = 5
	Layout     = "64-bit limbs (5x51 field, 5x56 scalar)"
)

var FieldBits = [FieldLimbs]uint{51, 51, 51, 51, 51}

// FieldExcess is the amount by which a "reduced" limb may exceed its mask in
// generated level-0 operands (calibrated against the envelope observed on
// API executions, see DESIGN.md C18).
func FieldExcess(i int) uint64 {
	if i <= 1 {
		return 0x2000
	}
	return 0
}

func FSetLimb(a *FE, i int, v uint64) { a[i] = v }
