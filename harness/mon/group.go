//go:build verifmon

package mon

import (
	"bytes"
	"fmt"
	"math/big"

	"github.com/oasisprotocol/ed25519"
	"github.com/oasisprotocol/ed25519/internal/ge25519"
	"github.com/oasisprotocol/ed25519/verifh/ev"
	"github.com/oasisprotocol/ed25519/verifh/ref"
)

type GE = ge25519.Ge25519

func ge(x interface{}) *GE {
	v, ok := x.(GE)
	if !ok {
		return nil
	}
	return &v
}

// Affine returns the affine point of a projective representation; ok=false
// if Z = 0 or the point is not on the curve.
func Affine(p *GE) (ref.Point, bool) {
	z := modp(FVal(p.Z()))
	if z.Sign() == 0 {
		return ref.Point{}, false
	}
	zi := new(big.Int).ModInverse(z, ref.P)
	x := modp(new(big.Int).Mul(FVal(p.X()), zi))
	y := modp(new(big.Int).Mul(FVal(p.Y()), zi))
	return ref.Point{X: x, Y: y}, OnCurve(ref.Point{X: x, Y: y})
}

func OnCurve(p ref.Point) bool {
	x2 := modp(new(big.Int).Mul(p.X, p.X))
	y2 := modp(new(big.Int).Mul(p.Y, p.Y))
	l := modp(new(big.Int).Sub(y2, x2))
	r := modp(new(big.Int).Add(one, new(big.Int).Mul(ref.D, modp(new(big.Int).Mul(x2, y2)))))
	return l.Cmp(r) == 0
}

// tOK: extended coordinate consistent, T*Z == X*Y.
func tOK(p *GE) bool {
	return feq(new(big.Int).Mul(FVal(p.VerifT()), FVal(p.Z())), new(big.Int).Mul(FVal(p.X()), FVal(p.Y())))
}

func geCase(ps ...*GE) map[string]interface{} {
	c := map[string]interface{}{}
	for i, p := range ps {
		if p != nil {
			c[fmt.Sprintf("point%d", i)] = map[string]interface{}{"x": limbs(p.X()), "y": limbs(p.Y()), "z": limbs(p.Z()), "t": limbs(p.VerifT())}
		}
	}
	return c
}

func ptStr(p ref.Point) string { return ev.Hex(ref.Encode(p)) }

func expectPoint(fn string, got *GE, want ref.Point, needT bool, c map[string]interface{}) {
	a, ok := Affine(got)
	switch {
	case !ok:
		violate("group", fn, "result is not a point on the curve (or Z = 0)", c)
	case !ref.Eq(a, want):
		c["expected"] = ptStr(want)
		c["observed"] = ptStr(a)
		violate("group", fn, fmt.Sprintf("result %s, expected %s (canonical encodings)", ptStr(a), ptStr(want)), c)
	case needT && !tOK(got):
		violate("group", fn, "extended coordinate inconsistent (T*Z != X*Y)", c)
	}
}

// GroupHook judges one call of package ge25519.
func GroupHook(name string, pre, post, ret []interface{}) {
	count("group/" + name)
	switch name {
	case "ScalarmultBaseNiels":
		s, r := sc(pre[2]), ge(post[0])
		if s == nil || r == nil {
			return
		}
		c := map[string]interface{}{"scalar": slimbs(s)}
		want := ref.ScalarMult(SVal(s), ref.B)
		expectPoint(name, r, want, true, c)
		if sampleOnce("ScalarmultBaseNiels") {
			Rec.Sample(map[string]interface{}{"monitored_call": "ScalarmultBaseNiels", "scalar": SVal(s).Text(16), "model_result": ptStr(want), "phase": Phase})
		}
	case "DoubleScalarmultVartime":
		p, s1, s2, r := ge(pre[1]), sc(pre[2]), sc(pre[3]), ge(post[0])
		if p == nil || s1 == nil || s2 == nil || r == nil {
			return
		}
		pa, ok := Affine(p)
		if !ok {
			return
		}
		want := ref.Add(ref.ScalarMult(SVal(s1), pa), ref.ScalarMult(SVal(s2), ref.B))
		c := geCase(p)
		c["s1"], c["s2"] = slimbs(s1), slimbs(s2)
		c["P"] = ptStr(pa)
		expectPoint(name, r, want, false, c)
		if sampleOnce("DoubleScalarmultVartime") {
			Rec.Sample(map[string]interface{}{"monitored_call": "DoubleScalarmultVartime", "P": ptStr(pa), "s1": SVal(s1).Text(16), "s2": SVal(s2).Text(16), "model_result": ptStr(want), "phase": Phase})
		}
	case "Add":
		p, q, r := ge(pre[1]), ge(pre[2]), ge(post[0])
		if p == nil || q == nil || r == nil {
			return
		}
		pa, ok1 := Affine(p)
		qa, ok2 := Affine(q)
		if !ok1 || !ok2 || !tOK(p) || !tOK(q) {
			count("group-class/Add/operand-not-full(outside contract)")
			return
		}
		expectPoint(name, r, ref.Add(pa, qa), true, geCase(p, q))
	case "Double", "CofactorMultiply", "ProjectiveToExtended":
		p, r := ge(pre[1]), ge(post[0])
		if p == nil || r == nil {
			return
		}
		pa, ok := Affine(p)
		if !ok {
			return
		}
		want := pa
		switch name {
		case "Double":
			want = ref.Add(pa, pa)
		case "CofactorMultiply":
			want = ref.ScalarMult(big.NewInt(8), pa)
		}
		expectPoint(name, r, want, true, geCase(p))
	case "Pack":
		p := ge(pre[1])
		out, _ := post[0].([]byte)
		if p == nil || len(out) < 32 {
			return
		}
		pa, ok := Affine(p)
		if !ok {
			return
		}
		if !bytes.Equal(out[:32], ref.Encode(pa)) {
			c := geCase(p)
			c["observed"] = ev.Hex(out[:32])
			violate("group", name, fmt.Sprintf("encoding %x, canonical %x", out[:32], ref.Encode(pa)), c)
		}
	case "UnpackNegativeVartime", "UnpackVartime":
		in, _ := pre[1].([]byte)
		r := ge(post[0])
		got, _ := ret[0].(bool)
		if r == nil || len(in) != 32 {
			return
		}
		pt, dec := ref.Decode(in)
		c := map[string]interface{}{"in": ev.Hex(in)}
		if got != dec {
			violate("group", name, fmt.Sprintf("decodable=%v, lenient rule says %v", got, dec), c)
			return
		}
		if !dec {
			count("group-class/Unpack/undecodable")
			return
		}
		want := pt
		if name == "UnpackNegativeVartime" {
			want = ref.Neg(pt)
		}
		expectPoint(name, r, want, true, c)
	case "CofactorEqual":
		p, q := ge(pre[0]), ge(pre[1])
		got, _ := ret[0].(bool)
		if p == nil || q == nil {
			return
		}
		pa, ok1 := Affine(p)
		qa, ok2 := Affine(q)
		if !ok1 || !ok2 {
			return
		}
		e := big.NewInt(8)
		want := ref.Eq(ref.ScalarMult(e, pa), ref.ScalarMult(e, qa))
		if got != want {
			violate("group", name, fmt.Sprintf("returned %v for P=%s Q=%s", got, ptStr(pa), ptStr(qa)), geCase(p, q))
		}
	case "IsNeutralVartime":
		q := ge(pre[0])
		got, _ := ret[0].(bool)
		if q == nil {
			return
		}
		qa, ok := Affine(q)
		if !ok {
			return
		}
		if got != ref.IsIdentity(qa) {
			violate("group", name, fmt.Sprintf("returned %v for %s", got, ptStr(qa)), geCase(q))
		}
	case "scalarmultBaseChooseNiels":
		pos, _ := pre[2].(int)
		b, _ := pre[3].(int8)
		ys, xa, t2, ok := ge25519.VerifNiels(post[0])
		if !ok {
			return
		}
		envMu.Lock()
		cnt[fmt.Sprintf("selector/pos%02d/%+d", pos, b)]++
		envMu.Unlock()
		CheckSelector(pos, b, &ys, &xa, &t2, true)
	case "moveConditionalBytes":
		o0, ok0 := pre[0].([96]byte)
		in, ok1 := pre[1].([96]byte)
		o1, ok2 := post[0].([96]byte)
		in1, ok3 := post[1].([96]byte)
		var flag uint64
		switch x := pre[2].(type) {
		case uint64:
			flag = x
		case uint32:
			flag = uint64(x)
		}
		if !ok0 || !ok1 || !ok2 || !ok3 {
			return
		}
		want := o0
		if flag == 1 {
			want = in
		}
		if flag <= 1 && (o1 != want || in1 != in) {
			violate("group", name, fmt.Sprintf("flag=%d: destination is neither the source nor unchanged, or source modified", flag),
				map[string]interface{}{"out": ev.Hex(o0[:]), "in": ev.Hex(in[:]), "flag": flag, "observed": ev.Hex(o1[:])})
		}
	}
}

// CheckSelector compares a selected niels element with the plain lookup of
// the exported table: row pos*8+|b|-1, halves swapped and t2d negated for
// b < 0, (1, 1, 0) for b = 0.
func CheckSelector(pos int, b int8, ys, xa, t2 *FE, record bool) bool {
	var wy, wx, wt *big.Int
	if b == 0 {
		wy, wx, wt = big.NewInt(1), big.NewInt(1), big.NewInt(0)
	} else {
		ab := int(b)
		if ab < 0 {
			ab = -ab
		}
		row := ge25519.NielsBaseMultiples[pos*8+ab-1]
		wy, wx, wt = ref.LEInt(row[0:32]), ref.LEInt(row[32:64]), ref.LEInt(row[64:96])
		if b < 0 {
			wy, wx = wx, wy
			wt = new(big.Int).Neg(wt)
		}
	}
	if feq(FVal(ys), wy) && feq(FVal(xa), wx) && feq(FVal(t2), wt) {
		return true
	}
	if record {
		violate("group", "scalarmultBaseChooseNiels", fmt.Sprintf("pos=%d digit=%d: selected element differs from table row", pos, b),
			map[string]interface{}{"pos": pos, "digit": int(b), "ysubx": limbs(ys), "xaddy": limbs(xa), "t2d": limbs(t2)})
	}
	return false
}

// RootHook judges the instrumented routines of the root package.
func RootHook(name string, pre, post, ret []interface{}) {
	count("root/" + name)
	switch name {
	case "scMinimal":
		s, _ := pre[0].([]byte)
		got, _ := ret[0].(bool)
		if len(s) != 32 {
			return
		}
		want := ref.LEInt(s).Cmp(ref.L) < 0
		if got != want {
			violate("root", name, fmt.Sprintf("S=%x: returned %v, S < L is %v", s, got, want), map[string]interface{}{"s": ev.Hex(s)})
		}
	case "isSmallOrderVartime":
		s, _ := pre[0].([]byte)
		got, _ := ret[0].(bool)
		if len(s) != 32 {
			return
		}
		pt, dec := ref.Decode(s)
		want := !dec || ref.IsSmallOrder(pt)
		if got != want {
			violate("root", name, fmt.Sprintf("%x: returned %v, expected %v", s, got, want), map[string]interface{}{"s": ev.Hex(s)})
		}
	case "multiScalarmultVartime":
		cntv, _ := pre[2].(int)
		r := ge(post[0])
		pts, scs, ok := ed25519.VerifHeapView(pre[1], cntv)
		if !ok || r == nil {
			return
		}
		JudgeMSM(pts, scs, r, "api")
	}
}

// JudgeMSM compares the multi-scalar multiplication result with the model
// sum over the given (pre-call) points and scalars.  Returns true if exact.
func JudgeMSM(pts []GE, scs []SC, r *GE, origin string) bool {
	sum := ref.Identity()
	n := (len(pts) - 1) / 2
	nzr := 0
	var hexScalars []string
	var encPoints []string
	for i := range pts {
		pa, ok := Affine(&pts[i])
		if !ok {
			return true
		}
		v := SVal(&scs[i])
		sum = ref.Add(sum, ref.ScalarMult(v, pa))
		if i > n && v.Sign() != 0 {
			nzr++
		}
		hexScalars = append(hexScalars, v.Text(16))
		encPoints = append(encPoints, ptStr(pa))
	}
	ra, ok := Affine(r)
	if ok && ref.Eq(ra, sum) {
		if sampleOnce("msm/" + origin) {
			k := len(hexScalars)
			if k > 5 {
				k = 5
			}
			Rec.Sample(map[string]interface{}{"monitored_call": "multiScalarmultVartime", "terms": len(pts), "non_zero_randomisers": nzr, "first_scalars": hexScalars[:k], "model_sum": ptStr(sum)})
		}
		return true
	}
	// classification used by the known-findings list (D4): exactly one
	// non-zero randomiser and s0 = 0
	sig := "msm/inexact"
	if nzr == 1 && SVal(&scs[0]).Sign() == 0 {
		sig = "msm/D4-family"
	}
	c := map[string]interface{}{"op": "layer", "layer": "msm", "fn": "multiScalarmultVartime", "origin": origin, "count": len(pts), "scalars": hexScalars, "points": encPoints, "expected": ptStr(sum)}
	if ok {
		c["observed"] = ptStr(ra)
	}
	Rec.Violate("msm-exact", fmt.Sprintf("multi-scalar multiplication of %d terms (%s) differs from the sum of [s_i]P_i (non-zero randomisers: %d, s0 = %s)", len(pts), origin, nzr, SVal(&scs[0]).Text(16)), sig, c)
	return false
}
