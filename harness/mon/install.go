//go:build verifmon

package mon

import (
	"github.com/oasisprotocol/ed25519"
	"github.com/oasisprotocol/ed25519/extra/x25519"
	"github.com/oasisprotocol/ed25519/internal/curve25519"
	"github.com/oasisprotocol/ed25519/internal/ge25519"
	"github.com/oasisprotocol/ed25519/internal/modm"
	"github.com/oasisprotocol/ed25519/verifh/ev"
)

// Install sets the monitors on the hooks of the monitored build.
func Install(rec *ev.Rec, config string, field, scalar, group, root bool) {
	Rec, Config = rec, config
	if field {
		curve25519.VerifHook = FieldHook
	}
	if scalar {
		modm.VerifHook = ScalarHook
	}
	if group {
		ge25519.VerifHook = GroupHook
	}
	if root {
		ed25519.VerifHook = RootHook
	}
}

// Uninstall removes all monitors (used around oracle-side library use).
func Uninstall() {
	curve25519.VerifHook, modm.VerifHook, ge25519.VerifHook, ed25519.VerifHook = nil, nil, nil, nil
}

// StateDump concatenates the generated package-level state dumps.
func StateDump() string {
	return ed25519.VerifStateDump() + ge25519.VerifStateDump() + curve25519.VerifStateDump() + modm.VerifStateDump() + x25519.VerifStateDump()
}
