//go:build verifmon && (386 || force32bit)

package mon

// 10 x 25.5-bit field limbs, 9 x 30-bit scalar limbs
const (
	FieldLimbs = 10
	Layout     = "32-bit limbs (10x25.5 field, 9x30 scalar)"
)

var FieldBits = [FieldLimbs]uint{26, 25, 26, 25, 26, 25, 26, 25, 26, 25}

func FieldExcess(i int) uint64 {
	switch i {
	case 0:
		return 0x100
	case 1:
		return 0x400
	}
	return 0
}

func FSetLimb(a *FE, i int, v uint64) { a[i] = uint32(v) }
