#!/usr/bin/env python3
"""Prints the markdown table 'which checks catch which seeded changes' from seeded/matrix.json."""
import json, os, re
ROOT = "/verif/seeded"
m = json.load(open(os.path.join(ROOT, "matrix.json")))
DESC = {}
for s in sorted(m):
    d = os.path.join(ROOT, s)
    desc = ""
    meta = json.load(open(os.path.join(d, "meta.json")))
    if meta.get("summary"):
        desc = meta["summary"]
    elif meta.get("what"):
        desc = meta["what"]
    else:
        notes = open(os.path.join(d, "NOTES.md")).read() if os.path.exists(os.path.join(d, "NOTES.md")) else ""
        # first non-heading, non-empty line
        for ln in notes.splitlines():
            t = ln.strip()
            if t and not t.startswith("#") and len(t) > 25:
                desc = re.sub(r"[`*]", "", t)
                break
    DESC[s] = desc[:170]
print("| seed | targets | change | caught by (quick tier) | also run, silent |")
print("|---|---|---|---|---|")
for s in sorted(m):
    r = m[s]
    if "error" in r:
        print("| %s | | %s | patch does not apply | |" % (s, DESC[s]))
        continue
    caught = [c for c, v in r.items() if v["rc"] == 1]
    silent = [c for c, v in r.items() if v["rc"] == 0]
    other = [c + "(rc=%d)" % v["rc"] for c, v in r.items() if v["rc"] not in (0, 1)]
    prop = json.load(open(os.path.join(ROOT, s, "meta.json")))["property"]
    print("| %s | %s | %s | %s | %s |" % (s, prop, DESC[s].replace("|", "/"), ", ".join(caught), ", ".join(silent + other)))
