#!/usr/bin/env python3
"""Constant-time trace monitor (property C20).

Runs the traced victim under `valgrind --tool=lackey --trace-mem=yes`, keeps the window between the
second markBegin and the second markEnd (the first pair is the warm-up call), and inside it every
instruction that is not Go-runtime housekeeping: the library, everything it calls, the harness
frame, plus the runtime's data primitives (memmove, memequal, memclr, duff*).  Two executions that
differ only in secret bytes must have identical program-counter sequences, identical memory
operation kinds/sizes, identical static addresses and dynamic addresses related by a constant offset
per (8 KiB page of run A, page of run B) group.

  cttrace.py trace <bin> <out.pkl> <op> <sec> <sec2> <pub>
"""
import sys, subprocess, bisect, os, pickle, struct

RT_ALLOW = ("runtime.memmove", "runtime.memequal", "runtime.memclrNoHeapPointers", "runtime.duffcopy", "runtime.duffzero",
            "runtime.cmpstring", "runtime.memhash", "runtime.memeqbody", "runtime.cmpbody", "runtime.memclrHasPointers")
RT_SKIP_PREFIX = ("runtime.", "runtime/internal/", "internal/runtime/", "gosave", "setg_gcc", "_rt0", "callRet", "gogo", "aeshashbody", "x_cgo", "_cgo")

_symcache = {}


def symbols(binp):
    if binp in _symcache:
        return _symcache[binp]
    nm = subprocess.run(["go", "tool", "nm", "-n", "-size", binp], capture_output=True, text=True, check=True).stdout
    rs, marks = [], {}
    for l in nm.splitlines():
        p = l.split()
        if len(p) < 4:
            continue
        try:
            a = int(p[0], 16)
            sz = int(p[1])
        except ValueError:
            continue
        ty, name = p[2], p[3]
        if ty not in "Tt":
            continue
        if name in ("main.markBegin", "main.markEnd"):
            marks[name] = a
            continue
        if name in ("runtime.morestack", "runtime.morestack_noctxt", "runtime.morestack_noctxt.abi0", "runtime.morestack.abi0"):
            marks.setdefault("morestack", []).append((a, a + sz))
        if name.startswith(RT_ALLOW) or not name.startswith(RT_SKIP_PREFIX):
            rs.append((a, a + sz, name))
    rs.sort()
    _symcache[binp] = (rs, marks)
    return rs, marks


def load_ranges(binp):
    """PT_LOAD ranges of the ELF binary: addresses inside are static (text, tables, globals)."""
    d = open(binp, "rb").read(4096 * 4)
    is64 = d[4] == 2
    out = []
    if is64:
        phoff, = struct.unpack_from("<Q", d, 0x20)
        phentsize, phnum = struct.unpack_from("<HH", d, 0x36)
        for i in range(phnum):
            off = phoff + i * phentsize
            ptype, = struct.unpack_from("<I", d, off)
            vaddr, = struct.unpack_from("<Q", d, off + 0x10)
            memsz, = struct.unpack_from("<Q", d, off + 0x28)
            if ptype == 1:
                out.append((vaddr, vaddr + memsz))
    else:
        phoff, = struct.unpack_from("<I", d, 0x1C)
        phentsize, phnum = struct.unpack_from("<HH", d, 0x2A)
        for i in range(phnum):
            off = phoff + i * phentsize
            ptype, = struct.unpack_from("<I", d, off)
            vaddr, = struct.unpack_from("<I", d, off + 0x08)
            memsz, = struct.unpack_from("<I", d, off + 0x14)
            if ptype == 1:
                out.append((vaddr, vaddr + memsz))
    return out


def trace(binp, args):
    rs, marks = symbols(binp)
    starts = [r[0] for r in rs]
    b, e = marks["main.markBegin"], marks["main.markEnd"]
    env = {"GOGC": "off", "GOMAXPROCS": "1", "GODEBUG": "asyncpreemptoff=1", "PATH": "/usr/bin:/bin"}
    # the trace goes to a file, not a pipe: a slow reader would stretch the wall-clock time of the traced
    # window, and the Go scheduler's time-based cooperative pre-emption then perturbs the trace
    import tempfile
    tdir = os.environ.get("VERIF_CT_TMP") or tempfile.gettempdir()
    os.makedirs(tdir, exist_ok=True)
    fd, logf = tempfile.mkstemp(prefix="lackey-", suffix=".log", dir=tdir)
    os.close(fd)
    p = subprocess.run(["valgrind", "--tool=lackey", "--trace-mem=yes", "--log-file=" + logf, binp] + args, stderr=subprocess.DEVNULL, stdout=subprocess.PIPE, text=True, env=env)
    try:
        return _parse(logf, rs, starts, b, e, p.stdout, p.returncode, marks.get("morestack", []))
    finally:
        try:
            os.remove(logf)
        except OSError:
            pass


def _parse(logf, rs, starts, b, e, out, rc, morestack=()):
    msat = set()  # indices k such that runtime.morestack ran between kept pc k-1 and kept pc k
    ms_pending = False
    nb = 0
    active = False
    cur = False
    pcs = []
    syms = []  # index into rs of the symbol of each kept pc
    mem = []  # (index into pcs, kind, addr, size)
    funcs = {}
    for line in open(logf, errors="replace"):
        c = line[0]
        if c == 'I':
            try:
                pc = int(line[3:line.index(',')], 16)
            except ValueError:
                continue
            if pc == b:
                nb += 1
                active = (nb == 2)
                cur = False
                continue
            if pc == e:
                active = False
                cur = False
                continue
            if not active:
                cur = False
                continue
            i = bisect.bisect_right(starts, pc) - 1
            cur = i >= 0 and pc < rs[i][1]
            if cur:
                if ms_pending:
                    msat.add(len(pcs))
                    ms_pending = False
                pcs.append(pc)
                syms.append(i)
                n = rs[i][2]
                funcs[n] = funcs.get(n, 0) + 1
            elif any(lo <= pc < hi for lo, hi in morestack):
                ms_pending = True
        elif cur and c == ' ':
            k = line[1]
            try:
                a, s = line[3:].strip().split(',')
                mem.append((len(pcs) - 1, k, int(a, 16), int(s)))
            except ValueError:
                pass
    pcs, mem, nfix = normalize(pcs, syms, mem, rs, msat)
    return {"pcs": pcs, "mem": mem, "funcs": funcs, "out": (out or "").strip(), "rc": rc, "windows": nb, "prologue_reexecutions_removed": nfix}


def normalize(pcs, syms, mem, rs, msat):
    """Removes the trace of cooperative pre-emptions / stack growth inside the window.

    When the Go scheduler asks a goroutine to yield (time based, cannot be switched off) or the stack has to
    grow, the stack check in a function prologue branches to the function's morestack stub, the runtime runs
    (filtered out), and the function is re-entered from its first instruction.  In the filtered trace this
    shows as the entry PC of function f being executed while the previously recorded PC also belongs to f,
    with runtime.morestack having run in between (all three conditions are required).
    The first, aborted, execution of the prologue together with the stub is deleted, so that the trace is the
    one an undisturbed execution produces."""
    out_pcs, out_syms, keep_from = [], [], []  # keep_from[j] = original index of out_pcs[j]
    nfix = 0
    for k, pc in enumerate(pcs):
        sy = syms[k]
        if out_pcs and pc == rs[sy][0] and out_syms[-1] == sy:
            # roll back to the previous execution of this entry PC (contiguous stretch inside f)
            j = len(out_pcs) - 1
            while j >= 0 and out_syms[j] == sy and out_pcs[j] != pc:
                j -= 1
            # ... and only if runtime.morestack really ran inside the stretch to be dropped (a loop whose header
            # is the first instruction of a frameless leaf function must not be mistaken for a re-entry)
            if j >= 0 and out_syms[j] == sy and out_pcs[j] == pc and len(out_pcs) - j <= 64 and any(keep_from[j] < x <= k for x in msat):
                del out_pcs[j:], out_syms[j:], keep_from[j:]
                nfix += 1
        out_pcs.append(pc)
        out_syms.append(sy)
        keep_from.append(k)
    if nfix == 0:
        return pcs, mem, 0
    remap = {orig: new for new, orig in enumerate(keep_from)}
    out_mem = [(remap[m[0]], m[1], m[2], m[3]) for m in mem if m[0] in remap]
    return out_pcs, out_mem, nfix


def symname(binp, pc):
    rs, _ = symbols(binp)
    starts = [r[0] for r in rs]
    i = bisect.bisect_right(starts, pc) - 1
    if i >= 0 and pc < rs[i][1]:
        return "%s+0x%x" % (rs[i][2], pc - rs[i][0])
    return hex(pc)


def compare(binp, t1, t2):
    """None if the traces are equivalent, else a dict describing the first divergence."""
    pcs1, mem1, pcs2, mem2 = t1["pcs"], t1["mem"], t2["pcs"], t2["mem"]
    if pcs1 != pcs2:
        n = min(len(pcs1), len(pcs2))
        i = next((k for k in range(n) if pcs1[k] != pcs2[k]), n)
        return {"kind": "control-flow", "index": i, "len_a": len(pcs1), "len_b": len(pcs2),
                "last_common": symname(binp, pcs1[i - 1]) if i > 0 else None,
                "a": symname(binp, pcs1[i]) if i < len(pcs1) else "end", "b": symname(binp, pcs2[i]) if i < len(pcs2) else "end"}
    if len(mem1) != len(mem2):
        return {"kind": "memop-count", "a": len(mem1), "b": len(mem2)}
    ranges = load_ranges(binp)

    def static(a):
        return any(lo <= a < hi for lo, hi in ranges)
    groups = {}
    for j, (m1, m2) in enumerate(zip(mem1, mem2)):
        if m1[0] != m2[0] or m1[1] != m2[1] or m1[3] != m2[3]:
            return {"kind": "memop-shape", "index": j, "at": symname(binp, pcs1[m1[0]])}
        a1, a2 = m1[2], m2[2]
        s1, s2 = static(a1), static(a2)
        if s1 != s2:
            return {"kind": "address-class", "index": j, "at": symname(binp, pcs1[m1[0]]), "a": hex(a1), "b": hex(a2)}
        if s1:
            if a1 != a2:
                return {"kind": "static-address", "index": j, "at": symname(binp, pcs1[m1[0]]), "a": hex(a1), "b": hex(a2), "op": m1[1], "size": m1[3]}
        else:
            key = (a1 >> 13, a2 >> 13)
            d = a2 - a1
            if groups.setdefault(key, d) != d:
                return {"kind": "dynamic-address", "index": j, "at": symname(binp, pcs1[m1[0]]), "a": hex(a1), "b": hex(a2), "expected_delta": groups[key], "delta": d}
    return None


if __name__ == "__main__":
    if sys.argv[1] == "trace":
        binp, out = sys.argv[2], sys.argv[3]
        t = trace(binp, sys.argv[4:])
        pickle.dump(t, open(out, "wb"), protocol=4)
        print("pcs", len(t["pcs"]), "mem", len(t["mem"]), "funcs", len(t["funcs"]), "rc", t["rc"], "windows", t["windows"])
        sys.exit(0 if t["rc"] == 0 and t["windows"] >= 2 and t["pcs"] else 3)
