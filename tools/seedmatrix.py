#!/usr/bin/env python3
"""Runs checks against every confirmed seeded change: apply to /repo, run, undo. Writes seeded/matrix.json.
usage: seedmatrix.py [seed-id ...]   (default: all under /tmp/seed or /verif/seeded)"""
import subprocess, sys, json, os, re
ROOT = "/verif/seeded"
EXTRA = {
    "C01-c": ["C02", "C07"], "C01-d": ["C19", "C08"], "C02-c": ["C13", "C14", "C03"], "C02-d": ["C08", "C16"], "C03-c": ["C02", "C13"], "C03-d": ["C19", "C08"],
    "C04-c": ["C19", "C08"], "C04-d": ["C19", "C16"], "C05-c": ["C19", "C16"], "C05-d": ["C04"], "C06-c": ["C13"], "C06-d": ["C17", "C03"],
    "C08-c": ["C19", "C11"], "C08-d": ["C16"], "C10-c": [], "C10-d": ["C12", "C09"], "C11-c": ["C13"], "C11-d": ["C16", "C08"],
    "C12-c": ["C19", "C11"], "C13-c": ["C11"], "C13-d": ["C02"], "C15-c": ["C07"], "C16-c": ["C11", "C08"], "C16-d": ["C08", "C01"],
    "C17-c": [], "C17-d": ["C06", "C07"], "C18-c": [], "C18-d": ["C16"], "C19-c": [], "C19-d": ["C08"], "C20-c": [], "C20-d": [],
    "C06-e": ["C03"], "C06-f": ["C09"], "C13-e": ["C06"], "C13-f": ["C06"], "C15-e": ["C06"], "C15-f": ["C02", "C13"], "C17-e": ["C06"], "C17-f": ["C19"],
    "C02-e": ["C07"], "C02-f": ["C16", "C08"], "C10-e": ["C06", "C08"], "C10-f": ["C15", "C13"], "C16-e": [], "C16-f": [], "C19-e": ["C04"], "C19-f": [],
    "C01-g": ["C07", "C15"], "C01-h": ["C15"], "C03-g": ["C06", "C17"], "C03-h": ["C02", "C07"], "C03-i": ["C08", "C01"], "C04-g": ["C06"], "C04-h": ["C05"],
    "C05-g": ["C01"], "C05-h": ["C06"], "C07-g": ["C06"], "C07-h": ["C15"], "C09-g": ["C06"], "C09-h": ["C06"], "C11-g": ["C08"], "C11-h": ["C08", "C16"],
    "C12-g": ["C11"], "C12-h": ["C10"], "C14-g": ["C13"], "C14-h": [], "C20-g": [], "C20-h": [],
    "C08-g": ["C11", "C18"], "C08-h": ["C19", "C04"], "C18-g": ["C10", "C16"], "C18-h": ["C16"],
    "C06-i": ["C07", "C13"], "C06-j": ["C13"], "C13-i": ["C06", "C17"], "C13-j": ["C06"], "C14-i": ["C13", "C02"], "C14-j": ["C10"],
    "C12-y": ["C10"], "C12-z": ["C10"], "C16-y": ["C19", "C04"], "C16-z": ["C19", "C01"], "C18-y": ["C16", "C08"], "C18-z": ["C16", "C08"], "C10-y": ["C12", "C01"], "C10-z": ["C12", "C01"],
    "C19-y": ["C04", "C08"], "C11-y": ["C16", "C19"],
    "C17-y": ["C06"], "C09-y": ["C01", "C03"],
    "R1": ["C01", "C05", "C08"], "R2": [], "R3": ["C06"], "R4": ["C06"],  # additional checks worth running per seed (besides the seed's own property)
    "C01-a": ["C04", "C05"], "C01-b": ["C02", "C07"], "C02-a": ["C07"], "C02-b": ["C08", "C19"], "C03-a": ["C15"], "C03-b": ["C06"],
    "C04-b": ["C06"], "C05-a": ["C06"], "C05-b": ["C06", "C09"], "C06-a": ["C04"], "C06-b": [], "C07-a": ["C02"], "C07-b": ["C06"],
    "C08-a": ["C19", "C02"], "C08-b": ["C19", "C16"], "C09-a": ["C06"], "C09-b": ["C15"], "C10-a": ["C12"], "C10-b": ["C08", "C18"],
    "C11-a": ["C08", "C19", "C16"], "C11-b": ["C13"], "C12-a": ["C10"], "C12-b": ["C15"], "C13-a": ["C15"], "C13-b": ["C06"],
    "C14-a": [], "C14-b": [], "C15-a": ["C08"], "C15-b": ["C07"], "C16-a": ["C19", "C05"], "C16-b": ["C15"], "C17-a": ["C06"], "C17-b": [],
    "C18-a": [], "C18-b": ["C15"], "C19-a": [], "C19-b": ["C08", "C16"], "C20-a": [], "C20-b": [],
}
def run(seed, checks):
    patch = os.path.join(ROOT, seed, "patch.diff")
    if subprocess.run(["git", "-C", "/repo", "diff", "--quiet"]).returncode != 0:
        sys.exit("/repo dirty")
    if subprocess.run(["git", "-C", "/repo", "apply", patch]).returncode != 0:
        return {"error": "patch does not apply"}
    res = {}
    try:
        for c in checks:
            p = subprocess.run(["./check", c, os.environ.get("TIER", "quick")], cwd="/verif", capture_output=True, text=True)
            nv = len(re.findall(r"^VIOLATION", p.stdout, re.M))
            first = ""
            m = re.search(r"^  \[(.*?)\] (.*)$", p.stdout, re.M)
            if m:
                first = "[%s] %s" % (m.group(1), m.group(2)[:220])
            res[c] = {"rc": p.returncode, "violation_lines": nv, "first": first}
            print(seed, c, "rc=%d" % p.returncode, "violations=%d" % nv, first[:150], flush=True)
    finally:
        subprocess.run(["git", "-C", "/repo", "checkout", "--", "."])
    return res
if __name__ == "__main__":
    seeds = sys.argv[1:] or sorted(d for d in os.listdir(ROOT) if os.path.isfile(os.path.join(ROOT, d, "patch.diff")))
    mp = os.path.join(ROOT, "matrix.json")
    matrix = json.load(open(mp)) if os.path.exists(mp) else {}
    for s in seeds:
        prop = s.split("-")[0]
        if prop.startswith("R"):
            prop = json.load(open(os.path.join(ROOT, s, "meta.json")))["property"]
        checks = [prop] + [c for c in EXTRA.get(s, EXTRA.get(s.split("-")[0], [])) if c != prop]
        matrix[s] = run(s, checks)
        json.dump(matrix, open(mp, "w"), indent=1, sort_keys=True)
