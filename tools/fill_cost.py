#!/usr/bin/env python3
"""Regenerates the cost table of DESIGN.md from a quick-sweep log and a thorough-sweep log.
usage: fill_cost.py <quick.log> <quick seed> <thorough.log> <thorough seed|any> <note>   (seed "any": last line per check)"""
import re, sys
sys.path.insert(0, "/verif/tools")
import driver
ql, qs, tl, ts, note = sys.argv[1], sys.argv[2], sys.argv[3], sys.argv[4], sys.argv[5]
def parse(path, tier, seed):
    out = {}
    for l in open(path, errors="replace"):
        m = re.search(r"(C\d\d) %s seed=%s: evaluations=(\d+) distinct_nontrivial=(\d+).*wall=([\d.]+)s" % (tier, r"\d+" if seed == "any" else seed), l)
        if m:
            out[m.group(1)] = (int(m.group(2)), int(m.group(3)), float(m.group(4)))
    return out
q, t = parse(ql, "quick", qs), parse(tl, "thorough", ts)
def cfgs(spec, tier):
    out = []
    for key in ("configs", "inside_configs"):
        for c in spec.get(key, {}).get(tier, []):
            name = c[0] + ("+" + c[2] if len(c) > 2 else "") if isinstance(c, tuple) else c
            out.append(("in:" if key == "inside_configs" else "") + name)
    cc = spec.get("count_configs", {}).get(tier, [])
    if cc:
        out.append("cnt:%s..%s" % (cc[0], cc[-1]))
    return " ".join(out)
rows = ["| check | engine | quick: configurations | quick: evaluations / distinct | quick wall | thorough: configurations | thorough: evaluations / distinct | thorough wall |", "|---|---|---|---|---|---|---|---|"]
for p in sorted(driver.SPECS):
    sp = driver.SPECS[p]
    qq, tt = q.get(p, (0, 0, 0)), t.get(p, (0, 0, 0))
    rows.append("| %s | %s | %s | %s / %s | %.0f s | %s | %s / %s | %.0f s |" % (p, sp["engine"], cfgs(sp, "quick"), f"{qq[0]:,}", f"{qq[1]:,}", qq[2], cfgs(sp, "thorough"), f"{tt[0]:,}", f"{tt[1]:,}", tt[2]))
table = "\n".join(rows) + "\n\nAll 20 quick checks: %.0f s; all 20 thorough checks: %.0f min. %s\n`in:` marks the configurations of the inside (monitored-build) part of C04/C09; `cnt:` those of the block-count monitor of C20; `+race` / `+asan` mark sanitizer builds of the same workload.\n" % (sum(v[2] for v in q.values()), sum(v[2] for v in t.values()) / 60, note)
s = open("/verif/DESIGN.md").read()
s = re.sub(r"<!-- COST-BEGIN -->.*?<!-- COST-END -->", lambda _: "<!-- COST-BEGIN -->\n" + table + "<!-- COST-END -->", s, flags=re.S)
open("/verif/DESIGN.md", "w").write(s)
print(table[-400:])
