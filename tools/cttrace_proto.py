#!/usr/bin/env python3
"""Trace the window between the 2nd markBegin and 2nd markEnd (first pair is warm-up)
under valgrind lackey; emit (pc list, mem ops)."""
import sys, subprocess, bisect, os, json, hashlib

ALLOW_PREFIX = (
    "github.com/oasisprotocol/ed25519", "main.",
    "crypto/subtle.", "crypto/sha512.", "crypto/internal/", "bytes.", "internal/bytealg.",
    "runtime.memmove", "runtime.memequal", "runtime.memclrNoHeapPointers", "runtime.duffcopy", "runtime.duffzero",
    "memeqbody", "runtime.memeqbody", "cmpbody", "internal/byteorder.", "encoding/binary.", "math/bits.", "strconv.",
)

RT_ALLOW = ("runtime.memmove", "runtime.memequal", "runtime.memclrNoHeapPointers", "runtime.duffcopy", "runtime.duffzero", "runtime.cmpstring", "runtime.memhash")

def symbols(binp):
    nm = subprocess.run(["go", "tool", "nm", "-n", "-size", binp], capture_output=True, text=True, check=True).stdout
    rs = []; marks = {}
    for l in nm.splitlines():
        p = l.split()
        if len(p) < 4: continue
        try: a = int(p[0], 16); sz = int(p[1])
        except ValueError: continue
        ty, name = p[2], p[3]
        if ty not in "Tt": continue
        if name in ("main.markBegin", "main.markEnd"): marks[name] = a
        if name in ("main.markBegin", "main.markEnd"): continue
        if (not name.startswith("runtime.")) or name.startswith(RT_ALLOW): rs.append((a, a + sz, name))
    rs.sort()
    return rs, marks

def trace(binp, args, tool="valgrind"):
    rs, marks = symbols(binp)
    starts = [r[0] for r in rs]
    b, e = marks["main.markBegin"], marks["main.markEnd"]
    env = {"GOGC": "off", "GOMAXPROCS": "1", "GODEBUG": "asyncpreemptoff=1", "PATH": "/usr/bin:/bin"}
    p = subprocess.Popen([tool, "--tool=lackey", "--trace-mem=yes", binp] + args, stderr=subprocess.PIPE, stdout=subprocess.PIPE, text=True, env=env)
    nb = 0; active = False; cur = False
    pcs = []; mem = []  # mem: (index into pcs, kind, addr, size)
    funcs = {}
    for line in p.stderr:
        c = line[0]
        if c == 'I':
            pc = int(line[3:line.index(',')], 16)
            if pc == b:
                nb += 1; active = (nb == 2); cur = False; continue
            if pc == e:
                active = False; cur = False; continue
            if not active: cur = False; continue
            i = bisect.bisect_right(starts, pc) - 1
            cur = i >= 0 and pc < rs[i][1]
            if cur:
                pcs.append(pc)
                funcs[rs[i][2]] = funcs.get(rs[i][2], 0) + 1
        elif cur and c == ' ':
            k = line[1]
            a, s = line[3:].strip().split(',')
            mem.append((len(pcs) - 1, k, int(a, 16), int(s)))
    out = p.stdout.read()
    p.wait()
    return pcs, mem, funcs, out.strip(), p.returncode

def compare(t1, t2):
    pcs1, mem1 = t1[0], t1[1]; pcs2, mem2 = t2[0], t2[1]
    if pcs1 != pcs2:
        n = min(len(pcs1), len(pcs2))
        i = next((k for k in range(n) if pcs1[k] != pcs2[k]), n)
        return "PC", i
    if len(mem1) != len(mem2): return "MEMCOUNT", (len(mem1), len(mem2))
    groups = {}
    for j, (m1, m2) in enumerate(zip(mem1, mem2)):
        if m1[0] != m2[0] or m1[1] != m2[1] or m1[3] != m2[3]: return "MEMSHAPE", j
        a1, a2 = m1[2], m2[2]
        dyn1, dyn2 = a1 >= 0xc000000000, a2 >= 0xc000000000
        if dyn1 != dyn2: return "MEMCLASS", j
        if not dyn1:
            if a1 != a2: return "STATIC", j
        else:
            key = (a1 >> 13, a2 >> 13)
            d = a2 - a1
            if groups.setdefault(key, d) != d: return "DYN", j
    return None, None

if __name__ == "__main__":
    binp = sys.argv[1]; op = sys.argv[2]; pub = sys.argv[3]
    secrets = sys.argv[4:]
    ref = None
    for s in secrets:
        s1, _, s2 = s.partition(':')
        t = trace(binp, [op, s1, s2 or s1, pub])
        print(sorted(t[2].items()) if len(t[2])<8 else "", op, s[:16], "pcs", len(t[0]), "mem", len(t[1]), "funcs", len(t[2]), "rc", t[4], "out", t[3][:20])
        if ref is None: ref = t; continue
        r = compare(ref, t)
        print("   compare:", r)
        if r[0] == "PC":
            rs, _ = symbols(binp)
            i = r[1]
            for pcs in (ref[0], t[0]):
                pc = pcs[i] if i < len(pcs) else None
                nm = [x[2] for x in rs if pc is not None and x[0] <= pc < x[1]]
                print("     at", i, hex(pc) if pc else None, nm)
