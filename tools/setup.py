"""MANIFEST.setup_cmd: build the framework offline from files on disk (warms the Go build cache for
every configuration, the race and asan runtimes, and checks that the tools the checks need exist)."""
import subprocess, sys, os, shutil
import driver


def main():
    ok = True
    for tool in ("go", "valgrind", "python3"):
        if shutil.which(tool) is None:
            print("setup: missing tool", tool)
            ok = False
    jobs = []
    for cfg in driver.CONFIGS:
        jobs.append((cfg, "apimon", {}))
    for cfg, cmd, kw in jobs:
        try:
            p = driver.build(cfg, cmd, **kw)
            print("setup: built", cfg, cmd)
        except driver.BuildError as e:
            print(e)
            ok = False
    for extra in getattr(driver, "SETUP_EXTRA", []):
        try:
            extra()
        except driver.BuildError as e:
            print(e)
            ok = False
    return 0 if ok else 1
