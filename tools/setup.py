"""MANIFEST.setup_cmd: build the framework offline from files on disk (warms the Go build cache for
every configuration, the race and asan runtimes, and checks that the tools the checks need exist)."""
import subprocess, sys, os, shutil
import driver


def main():
    ok = True
    for tool in ("go", "valgrind", "python3"):
        if shutil.which(tool) is None:
            print("setup: missing tool", tool)
            ok = False
    jobs = []
    for cfg in driver.CONFIGS:
        jobs.append((cfg, "apimon", {}))
        jobs.append((cfg, "transcript", {}))
        jobs.append((cfg, "conc", {}))
        jobs.append((cfg, "ctvictim", {"static": True}))
        if driver.CONFIGS[cfg]["env"].get("GOARCH") != "386":
            jobs.append((cfg, "conc", {"race": True}))
    for cfg in ("K0", "K1", "K2"):
        jobs.append((cfg, "apimon", {"race": True}))
    for cfg in ("K1", "K2"):
        jobs.append((cfg, "apimon", {"asan": True}))
    for cfg, cmd, kw in jobs:
        try:
            p = driver.build(cfg, cmd, **kw)
            print("setup: built", cfg, cmd)
        except driver.BuildError as e:
            print(e)
            ok = False
    for cfg in driver.CONFIGS:
        try:
            ov, rep = driver.monitored_overlay(cfg)
            driver.build(cfg, "layers", overlay=ov, extra_tags=["verifmon"], suffix="-mon")
            print("setup: built monitored build", cfg)
        except driver.BuildError as e:
            print(e)
            ok = False
    try:
        cov = driver.count_overlay()
        for cfg in driver.CONFIGS:
            driver.build(cfg, "ctcount", overlay=cov, extra_tags=("verifcov",), suffix="-cov")
            print("setup: built block-count victim", cfg)
    except driver.BuildError as e:
        print(e)
        ok = False
    for extra in getattr(driver, "SETUP_EXTRA", []):
        try:
            extra()
        except driver.BuildError as e:
            print(e)
            ok = False
    return 0 if ok else 1
