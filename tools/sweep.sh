#!/bin/bash
# usage: tools/sweep.sh <tier> <seed> [<seed> ...]   runs every registered check, prints one line per check
tier=$1; shift
cd "$(dirname "$0")/.."
for seed in "$@"; do
  for p in C01 C02 C03 C04 C05 C06 C07 C08 C09 C10 C11 C12 C13 C14 C15 C16 C17 C18 C19 C20; do
    out=$(VERIF_SEED=$seed ./check $p $tier 2>&1); rc=$?
    echo "seed=$seed $p rc=$rc $(echo "$out" | grep -c '^VIOLATION') viol; $(echo "$out" | grep -c '^INCONCLUSIVE') inconc; $(echo "$out" | tail -1 | cut -c1-160)"
    if [ $rc -ne 0 ]; then echo "$out" | grep -B1 -m3 '^VIOLATION' | cut -c1-400; fi
    echo "$out" | grep -m3 '^INCONCLUSIVE' | cut -c1-400
  done
done
