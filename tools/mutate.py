#!/usr/bin/env python3
"""Mutation campaign against the monitors (sensitivity measurement, not a registered check).

For each generated single-site mutant of a library source file: copy /repo to a scratch tree,
apply the mutation, make sure it still builds (in the given tag set), optionally make sure the
repository's own test-suite still passes (otherwise the mutant is uninteresting: the existing tests
kill it), then run the given checks against the scratch tree (VERIF_REPO) and record which fire.

  tools/mutate.py --file internal/modm/modm_32bit.go --tags force32bit --checks C19 --configs K2 --n 120 --seed 1
"""
import argparse, os, re, random, shutil, subprocess, json, sys, time

VERIF = os.path.dirname(os.path.dirname(os.path.abspath(__file__)))
GOENV = {"GOFLAGS": "-mod=mod", "GOPROXY": "off", "GOSUMDB": "off", "GOTOOLCHAIN": "local"}


def candidates(lines, lo, hi):
    """Yield (line_index, description, new_line) for every single-site mutation."""
    out = []
    in_block_comment = False
    for i, ln in enumerate(lines):
        if i < lo or i >= hi:
            continue
        st = ln.strip()
        if st.startswith("/*"):
            in_block_comment = True
        if in_block_comment:
            if "*/" in st:
                in_block_comment = False
            continue
        if not st or st.startswith("//") or st.startswith("import") or st.startswith("package") or st.startswith('"'):
            continue
        code = ln.split("//")[0]
        if not code.strip():
            continue
        tail = ln[len(code):]
        # hex literal: flip one bit
        for m in re.finditer(r"0x[0-9a-fA-F]+", code):
            v = int(m.group(0), 16)
            nb = max(v.bit_length(), 1)
            for b in sorted(set([0, nb - 1, nb // 2, nb])):
                nv = v ^ (1 << b)
                new = code[:m.start()] + hex(nv) + code[m.end():] + tail
                out.append((i, "hex %s -> %s" % (m.group(0), hex(nv)), new))
        # small decimal literal in shifts / indices / plain
        for m in re.finditer(r"(?<![\w.])(\d{1,3})(?![\w.x])", code):
            v = int(m.group(1))
            for nv in (v + 1, v - 1):
                if nv < 0:
                    continue
                new = code[:m.start(1)] + str(nv) + code[m.end(1):] + tail
                out.append((i, "int %d -> %d" % (v, nv), new))
        # operator swaps
        swaps = [(" + ", " - "), (" - ", " + "), (" & ", " | "), (" | ", " & "), (" += ", " -= "), (" -= ", " += "), (" ^= ", " |= "),
                 (" < ", " <= "), (" <= ", " < "), (" > ", " >= "), (" >= ", " > "), (" == ", " != "), (" != ", " == "), (" >> ", " << "), (" &^ ", " & "), (" |= ", " &= "), (" &= ", " |= ")]
        for a, b in swaps:
            for m in re.finditer(re.escape(a), code):
                new = code[:m.start()] + b + code[m.end():] + tail
                out.append((i, "op '%s' -> '%s' at col %d" % (a.strip(), b.strip(), m.start()), new))
        # statement deletion (simple assignments / calls on one line, not declarations or control flow)
        if re.match(r"^\s*[\w\[\]\.\*&]+(\s*,\s*[\w\[\]\.\*&]+)*\s*(\+|-|\||&|\^|<<|>>)?=\s*[^=].*$", code) and ":=" not in code and not st.endswith("{"):
            ind = re.match(r"^\s*", ln).group(0)
            out.append((i, "delete statement", ind + "// mutant: deleted: " + st + "\n"))
    return out


def run(cmd, cwd=None, env=None, timeout=1800):
    e = dict(os.environ)
    e.update(GOENV)
    if env:
        e.update(env)
    try:
        p = subprocess.run(cmd, cwd=cwd, env=e, stdout=subprocess.PIPE, stderr=subprocess.STDOUT, text=True, timeout=timeout)
        return p.returncode, p.stdout
    except subprocess.TimeoutExpired:
        return 124, "timeout"


def main():
    ap = argparse.ArgumentParser()
    ap.add_argument("--file", required=True)
    ap.add_argument("--tags", default="")
    ap.add_argument("--goarch", default="")
    ap.add_argument("--checks", required=True)
    ap.add_argument("--configs", default="")
    ap.add_argument("--n", type=int, default=100)
    ap.add_argument("--seed", type=int, default=1)
    ap.add_argument("--lines", default="")  # lo-hi (1-based) to restrict
    ap.add_argument("--suite", action="store_true", help="require the repository's own tests to pass (default tags)")
    ap.add_argument("--suite-tags", default="", help="additionally require the suite to pass with these tags")
    ap.add_argument("--out", default="")
    a = ap.parse_args()
    scratch = "/tmp/mut/repo"
    shutil.rmtree("/tmp/mut", ignore_errors=True)
    os.makedirs(scratch)
    # the committed HEAD of /repo, not its working tree (which may carry a seeded change being tested)
    subprocess.run("git -C /repo archive HEAD | tar -x -C " + scratch, shell=True, check=True)
    src = os.path.join(scratch, a.file)
    lines = open(src).read().splitlines(keepends=True)
    lo, hi = 0, len(lines)
    if a.lines:
        x, y = a.lines.split("-")
        lo, hi = int(x) - 1, int(y)
    cands = candidates(lines, lo, hi)
    rnd = random.Random(a.seed)
    rnd.shuffle(cands)
    results = []
    outp = a.out or os.path.join(VERIF, "seeded", "mutation-" + os.path.basename(a.file) + ".json")
    done = 0
    for (li, desc, new) in cands:
        if done >= a.n:
            break
        mutated = list(lines)
        if mutated[li] == new:
            continue
        mutated[li] = new
        open(os.path.join(scratch, a.file), "w").write("".join(mutated))
        benv = {"GOARCH": a.goarch} if a.goarch else {}
        rc, out = run(["go", "build", "-tags", a.tags, "./..."], cwd=scratch, env=benv)
        rec = {"line": li + 1, "mutation": desc, "original": lines[li].strip()[:120]}
        if rc != 0:
            rec["status"] = "does-not-build"
            continue  # not counted
        if a.suite:
            rc, out = run(["go", "test", "-vet=off", "-count=1", "./..."], cwd=scratch, timeout=600)
            if rc != 0:
                rec["status"] = "killed-by-existing-suite"
                results.append(rec)
                done += 1
                print("%4d L%-4d %-45s killed by the existing suite" % (done, li + 1, desc[:45]), flush=True)
                continue
        if a.suite_tags:
            rc, out = run(["go", "test", "-vet=off", "-count=1", "-tags", a.suite_tags, "./..."], cwd=scratch, timeout=600)
            rec["suite_with_tags_" + a.suite_tags] = "pass" if rc == 0 else "fail"
        fired = []
        notes = []
        for chk in a.checks.split(","):
            env = {"VERIF_REPO": scratch, "VERIF_SHARD_TIMEOUT": "150", "VERIF_WORK": "/tmp/mut/work", "VERIF_EVID": "/tmp/mut/evidence"}
            if a.configs:
                env["VERIF_ONLY_CONFIGS"] = a.configs
            rc, out = run([os.path.join(VERIF, "check"), chk, "quick"], cwd=VERIF, env=env, timeout=1500)
            if rc == 1:
                fired.append(chk)
                m = re.search(r"^  \[(.*?)\] (.*)$", out, re.M)
                if m and len(notes) < 1:
                    notes.append(m.group(0).strip()[:160])
                break
            elif rc != 0:
                inc = [l for l in out.splitlines() if l.startswith("INCONCLUSIVE")]
                notes.append("%s rc=%d %s" % (chk, rc, (inc[0] if inc else (out.strip().splitlines()[-1] if out.strip() else ""))[:160]))
        hung = any("watchdog" in n or "rc=2" in n for n in notes)
        rec["status"] = "caught" if fired else ("HANG-or-inconclusive" if hung else "SURVIVED")
        rec["caught_by"] = fired
        rec["notes"] = notes
        results.append(rec)
        done += 1
        print("%4d L%-4d %-45s %s %s" % (done, li + 1, desc[:45], rec["status"], ",".join(fired)), flush=True)
        json.dump({"file": a.file, "tags": a.tags, "checks": a.checks, "configs": a.configs, "results": results}, open(outp, "w"), indent=1)
    open(os.path.join(scratch, a.file), "w").write("".join(lines))
    k = sum(1 for r in results if r["status"] == "caught")
    s = sum(1 for r in results if r["status"] == "SURVIVED")
    e = sum(1 for r in results if r["status"] == "killed-by-existing-suite")
    print("mutants: %d  caught by the monitors: %d  survived: %d  killed by the existing suite: %d" % (len(results), k, s, e))


if __name__ == "__main__":
    main()
