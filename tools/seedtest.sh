#!/bin/bash
# usage: tools/seedtest.sh <patch.diff> <ID> [<ID> ...]   (tier from $TIER, default quick)
# Applies the patch to /repo, runs the given checks, and always restores /repo.
set -u
patch=$1; shift
cd /verif
if ! git -C /repo diff --quiet; then echo "/repo has local modifications; refusing"; exit 9; fi
git -C /repo apply "$patch" || { echo "patch does not apply"; exit 9; }
trap 'git -C /repo checkout -- . ; git -C /repo status --short | grep -v "^??" ' EXIT
for id in "$@"; do
  ./check $id ${TIER:-quick} > /tmp/seedtest.$id.out 2>&1
  rc=$?
  echo "== $id rc=$rc  $(grep -c '^VIOLATION' /tmp/seedtest.$id.out) violation lines"
  grep -B1 '^VIOLATION' /tmp/seedtest.$id.out | grep -v '^--' | head -6 | cut -c1-300
  tail -1 /tmp/seedtest.$id.out | cut -c1-200
done
