#!/bin/bash
# usage: tools/confirm_seed.sh <Cxx> <a|b> [demo go-test args...]
# Confirms a seeded change in a scratch worktree: patch applies, existing suite passes,
# demo fails with the patch and passes without it. Prints a JSON summary line.
set -u
id=$1; v=$2; shift 2
src=${SRC:-/verif/seeded/$id-$v}
wt=/tmp/confirm/$id-$v
export GOFLAGS=-mod=mod GOPROXY=off GOSUMDB=off GOTOOLCHAIN=local
rm -rf $wt; git -C /repo worktree prune; mkdir -p /tmp/confirm
git -C /repo worktree add -q --detach $wt HEAD || exit 9
cd $wt
apply=ok; git apply $src/patch.diff || apply=FAIL
suite=ok; go build ./... >/dev/null 2>&1 || suite=BUILDFAIL
go test -vet=off -count=1 ./... > $wt/../$id-$v.suite.log 2>&1 || suite=FAIL
cp -r $src/demo/. $wt/
demo_with=pass; ( "$@" ) > $wt/../$id-$v.demo_with.log 2>&1 || demo_with=fail
git checkout -q -- . 
demo_without=pass; ( "$@" ) > $wt/../$id-$v.demo_without.log 2>&1 || demo_without=fail
cd /; git -C /repo worktree remove --force $wt
echo "{\"id\":\"$id-$v\",\"apply\":\"$apply\",\"suite_with_patch\":\"$suite\",\"demo_with_patch\":\"$demo_with\",\"demo_without_patch\":\"$demo_without\"}"
