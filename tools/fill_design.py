#!/usr/bin/env python3
"""Regenerates the seeded-change table and its summary in DESIGN.md from seeded/matrix.json."""
import json, os, subprocess, re
ROOT = "/verif/seeded"
m = json.load(open(os.path.join(ROOT, "matrix.json")))
table = subprocess.run(["python3", "/verif/tools/seedtable.py"], capture_output=True, text=True).stdout
n = len(m)
rev = len([s for s in m if s.startswith("R")])
missed, own_silent = [], []
for s in sorted(m):
    r = m[s]
    prop = json.load(open(os.path.join(ROOT, s, "meta.json")))["property"]
    caught = [c for c, v in r.items() if v["rc"] == 1]
    if not caught:
        missed.append(s)
    elif r.get(prop, {}).get("rc") != 1:
        own_silent.append("%s (→ %s)" % (s, ", ".join(caught)))
summary = "%d changes (%d seeded + %d reverts of the fix commits); %d are reported by at least one check of the quick tier%s.\n" % (
    n, n - rev, rev, n - len(missed), ("; NOT reported by any: " + ", ".join(missed)) if missed else "")
summary += "%d of them are not reported by the quick check of the property their author targeted but by the check of the property that quantifies over the missing dimension: %s.\n" % (len(own_silent), "; ".join(own_silent))
summary += "(Concurrency-only changes are C15's subject, which quantifies over schedules; 32-bit scalar reductions that go wrong once in 2^26..2^28 signatures are reached by C19, which drives the reduction directly, and by C08; changes that exist only on GOARCH=386 are in the quick tier of C08 and C16 and in the thorough tier of the API checks.)\n"
p = "/verif/DESIGN.md"
s = open(p).read()
s = re.sub(r"<!-- TABLE-BEGIN -->.*?<!-- TABLE-END -->", lambda _: "<!-- TABLE-BEGIN -->\n" + table + "<!-- TABLE-END -->", s, flags=re.S)
s = re.sub(r"<!-- SUMMARY-BEGIN -->.*?<!-- SUMMARY-END -->", lambda _: "<!-- SUMMARY-BEGIN -->\n" + summary + "<!-- SUMMARY-END -->", s, flags=re.S)
open(p, "w").write(s)
print(summary)
