#!/bin/bash
# Sensitivity campaign: single-site mutants of the library sources against the monitors.
cd "$(dirname "$0")/.."
N=${N:-120}
m() { timeout 7000 python3 tools/mutate.py "$@" 2>&1 | grep -v WARNING; }
m --file internal/modm/modm_32bit.go --tags force32bit --checks C19 --configs K2 --n $N --seed 11
m --file internal/curve25519/curve25519_donna_32bit.go --tags force32bit --checks C18 --configs K2 --n $N --seed 12
m --file internal/ge25519/scalarmult_base_choose_niels_ref.go --tags noasm --checks C16 --configs K1,K2 --n 50 --seed 13
m --file internal/ge25519/movecond_unsafe.go --tags noasm --checks C16 --configs K1,K2 --n 50 --seed 14
m --file internal/ge25519/movecond_slow.go --tags "noasm appengine" --checks C16 --configs K4,K5 --n 30 --seed 15
m --file internal/modm/modm_64bit.go --suite --checks C19,C16,C17 --configs K0 --n $N --seed 16
m --file internal/curve25519/curve25519_donna_64bit.go --lines 1-620 --suite --checks C18 --configs K0 --n $N --seed 17
m --file internal/ge25519/ge25519.go --suite --checks C16,C10 --configs K0 --n 100 --seed 18
m --file batch_verify.go --suite --checks C17,C06,C13 --configs K0 --n $N --seed 19
m --file ed25519.go --suite --checks C01,C02,C04,C05,C07,C13,C14 --configs K0 --n 100 --seed 20
m --file extra/x25519/x25519.go --suite --checks C11,C12,C13 --configs K0 --n 60 --seed 21
m --file internal/ge25519/cofactor_equal.go --suite --checks C16,C09,C01 --configs K0 --n 40 --seed 22
m --file internal/ge25519/movecond_unsafe.go --lines 91-123 --goarch 386 --checks C16 --configs K6 --n 40 --seed 23 --out /verif/seeded/mutation-movecond_unsafe.go-386.json
