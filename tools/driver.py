"""Check driver: builds the monitors from /repo's current tree, runs workload shards in
child processes, aggregates what the monitors observed, applies the known-findings list,
writes evidence and prints verdict lines."""
import os, sys, json, time, subprocess, hashlib, shutil, re, struct, glob
from concurrent.futures import ThreadPoolExecutor

VERIF = os.path.dirname(os.path.dirname(os.path.abspath(__file__)))
REPO = os.environ.get("VERIF_REPO", "/repo")
HARNESS = os.path.join(VERIF, "harness")
BUILD = os.path.join(VERIF, ".build")
WORK = os.environ.get("VERIF_WORK", os.path.join(VERIF, "work"))      # overridden by sensitivity campaigns only
EVID = os.environ.get("VERIF_EVID", os.path.join(VERIF, "evidence"))
NCPU = int(os.environ.get("VERIF_JOBS", str(os.cpu_count() or 4)))

GOENV = {"GOFLAGS": "-mod=mod", "GOPROXY": "off", "GOSUMDB": "off", "GOTOOLCHAIN": "local"}

CONFIGS = {
    "K0": {"tags": ["verif"], "env": {}, "desc": "64-bit limbs, amd64 assembly selector"},
    "K1": {"tags": ["verif", "noasm"], "env": {}, "desc": "64-bit limbs, reference selector, unsafe 64-bit cmov"},
    "K2": {"tags": ["verif", "force32bit"], "env": {}, "desc": "32-bit limbs, reference selector, unsafe cmov"},
    "K3": {"tags": ["verif", "appengine"], "env": {}, "desc": "64-bit limbs, asm selector, generic x/crypto ladder"},
    "K4": {"tags": ["verif", "force32bit", "appengine"], "env": {}, "desc": "32-bit limbs, subtle.ConstantTimeCopy cmov"},
    "K5": {"tags": ["verif", "noasm", "appengine"], "env": {}, "desc": "64-bit limbs, reference selector, ConstantTimeCopy cmov"},
    "K6": {"tags": ["verif"], "env": {"GOARCH": "386"}, "desc": "native 32-bit target (GOARCH=386)"},
}


def goenv(extra=None):
    e = dict(os.environ)
    e.update(GOENV)
    if extra:
        e.update(extra)
    return e


_pipe_closed = False


def log(*a):
    global _pipe_closed
    if _pipe_closed:
        return
    try:
        print(*a, flush=True)
    except BrokenPipeError:
        # the reader went away (e.g. `| head`); keep running so that evidence and exit status stay right
        _pipe_closed = True
        try:
            sys.stdout = open(os.devnull, "w")
        except OSError:
            pass


class BuildError(Exception):
    pass


def modfile_args():
    """Harness go.mod replaces the library by /repo; for another tree (VERIF_REPO) use a generated modfile."""
    if REPO == "/repo":
        # keep go.sum in step with the repository's
        try:
            shutil.copyfile(os.path.join(REPO, "go.sum"), os.path.join(HARNESS, "go.sum"))
        except OSError:
            pass
        return []
    os.makedirs(BUILD, exist_ok=True)
    tag = hashlib.sha1(REPO.encode()).hexdigest()[:10]
    mf = os.path.join(BUILD, "alt-%s.mod" % tag)
    src = open(os.path.join(HARNESS, "go.mod")).read().replace("=> /repo", "=> " + REPO)
    open(mf, "w").write(src)
    shutil.copyfile(os.path.join(REPO, "go.sum"), mf[:-4] + ".sum")
    return ["-modfile=" + mf]


def repo_tag():
    return "main" if REPO == "/repo" else hashlib.sha1(REPO.encode()).hexdigest()[:10]


def build(cfg, cmd, race=False, asan=False, overlay=None, extra_tags=(), static=False, suffix=""):
    """go build ./cmd/<cmd> for configuration cfg from the current tree. Returns binary path."""
    c = CONFIGS[cfg]
    outdir = os.path.join(BUILD, repo_tag(), cfg + ("-race" if race else "") + ("-asan" if asan else "") + suffix)
    os.makedirs(outdir, exist_ok=True)
    out = os.path.join(outdir, cmd)
    args = ["go", "build"] + modfile_args() + ["-tags", " ".join(list(c["tags"]) + list(extra_tags)), "-o", out]
    if race:
        args.append("-race")
    if asan:
        args.append("-asan")
    if overlay:
        args += ["-overlay", overlay]
    args.append("./cmd/" + cmd)
    env = dict(c["env"])
    if static:
        env["CGO_ENABLED"] = "0"
    t0 = time.time()
    p = subprocess.run(args, cwd=HARNESS, env=goenv(env), stdout=subprocess.PIPE, stderr=subprocess.STDOUT, text=True)
    if p.returncode != 0:
        raise BuildError("build of %s for %s failed:\n%s" % (cmd, cfg, p.stdout[-3000:]))
    return out


def run_shards(jobs, timeout):
    if os.environ.get("VERIF_SHARD_TIMEOUT"):
        timeout = int(os.environ["VERIF_SHARD_TIMEOUT"])
    """jobs: list of dict(args, out, log, env). Runs them NCPU at a time. Returns list of (job, status)
    with status in ok|crash|timeout and rc."""
    def one(j):
        t0 = time.time()
        with open(j["log"], "w") as lf:
            try:
                p = subprocess.run(j["args"], stdout=lf, stderr=subprocess.STDOUT, timeout=timeout, env=j.get("env"), cwd=j.get("cwd"))
                rc = p.returncode
                st = "ok" if rc == 0 else "crash"
            except subprocess.TimeoutExpired:
                rc, st = -1, "timeout"
        j["wall"] = time.time() - t0
        return j, st, rc
    with ThreadPoolExecutor(max_workers=NCPU) as ex:
        return list(ex.map(one, jobs))


# ---------------------------------------------------------------- known findings

def load_findings():
    p = os.path.join(VERIF, "known_findings.json")
    if not os.path.exists(p):
        return []
    return json.load(open(p)).get("findings", [])


def match_finding(v, findings):
    for f in findings:
        if f.get("status") != "open" or f.get("property") != v.get("property"):
            continue
        m = f.get("match", {})
        if "sig" in m and not re.fullmatch(m["sig"], v.get("sig", "")):
            continue
        if "sub" in m and m["sub"] != v.get("sub"):
            continue
        ok = True
        for k, val in m.get("case", {}).items():
            if v.get("case", {}).get(k) != val:
                ok = False
        if ok:
            return f
    return None


# ---------------------------------------------------------------- aggregation

class Agg:
    def __init__(self, prop, tier, seed):
        self.prop, self.tier, self.seed = prop, tier, seed
        self.evaluations = 0
        self.classes = {}
        self.samples = []
        self.violations = []
        self.nviol = 0
        self.inconclusive = []
        self.hashes = set()
        self.extra = {}
        self.configs = {}
        self.t0 = time.time()

    def add_record(self, path, cfg):
        r = json.load(open(path))
        self.evaluations += r.get("evaluations", 0)
        for k, v in (r.get("classes") or {}).items():
            if k.startswith("max/"):
                self.classes[k] = max(self.classes.get(k, 0), v)
            else:
                self.classes[k] = self.classes.get(k, 0) + v
        for s in (r.get("samples") or []):
            if len(self.samples) < 12:
                self.samples.append(s)
        for v in (r.get("violations") or []):
            self.violations.append(v)
        self.nviol += r.get("n_violations", 0)
        for s in (r.get("inconclusive") or []):
            self.inconclusive.append("%s: %s" % (cfg, s))
        for k, v in (r.get("extra") or {}).items():
            self.extra.setdefault(k, {})[cfg + "/" + r.get("shard", "")] = v
        hp = path + ".hashes"
        if os.path.exists(hp):
            b = open(hp, "rb").read()
            for i in range(0, len(b) - 7, 8):
                self.hashes.add(b[i:i + 8])
        c = self.configs.setdefault(cfg, {"evaluations": 0, "shards": 0})
        c["evaluations"] += r.get("evaluations", 0)
        c["shards"] += 1


def finish(agg, spec, extra_cov=None):
    """Apply known findings, write evidence, print verdict lines, return exit code."""
    prop = agg.prop
    findings = load_findings()
    vdir = os.path.join(WORK, prop, "violations")
    shutil.rmtree(vdir, ignore_errors=True)
    os.makedirs(vdir, exist_ok=True)
    real, known = [], {}
    for v in agg.violations:
        f = match_finding(v, findings)
        if f is not None:
            known.setdefault(f.get("id", f.get("what", "?")), (f, []))[1].append(v)
        else:
            real.append(v)
    # unrecorded overflow (more violations than records kept) counts as real
    lines = []
    seen_sig = set()
    nfile = 0
    for v in real:
        key = (v.get("sub"), v.get("sig"), v.get("config"))
        if key in seen_sig and nfile >= 5:
            continue
        seen_sig.add(key)
        path = os.path.join(vdir, "v%03d.json" % nfile)
        json.dump(v, open(path, "w"), indent=1)
        nfile += 1
        lines.append(("VIOLATION property=%s replay=%s" % (prop, path), v))
        if nfile >= 20:
            break
    for fid, (f, vs) in known.items():
        log("KNOWN-FINDING: property=%s %s" % (prop, f.get("what", fid)))
    for ln, v in lines:
        log("  [%s/%s] %s" % (v.get("config"), v.get("sub"), v.get("what")))
        log(ln)
    for s in agg.inconclusive[:20]:
        log("INCONCLUSIVE " + s)
    floor = spec.get("floor", 1)
    short = agg.evaluations < floor
    cov = {
        "evaluations": agg.evaluations,
        "distinct_nontrivial": len(agg.hashes),
        "rule": spec.get("rule", ""),
        "samples": agg.samples[:12] if agg.samples else [{"note": "no sample recorded"}],
        "classes_observed": dict(sorted(agg.classes.items())),
        "configs": agg.configs,
        "config_descriptions": {k: CONFIGS[k.split("+")[0]]["desc"] + (" (built with -%s)" % k.split("+")[1] if "+" in k else "") for k in agg.configs if k.split("+")[0] in CONFIGS},
        "inconclusive": agg.inconclusive[:50],
        "known_findings_seen": sorted(known.keys()),
        "violation_records": len(real),
        "monitor_floor": floor,
    }
    if agg.extra:
        cov["extra"] = agg.extra
    if extra_cov:
        cov.update(extra_cov)
    ev = {
        "property_id": prop, "tier": agg.tier, "seed": agg.seed, "level": spec.get("level", "exploration"),
        "coverage": cov,
        "assumptions": spec.get("assumptions", []),
        "wall_s": round(time.time() - agg.t0, 2),
        "violations": len(real),
    }
    os.makedirs(EVID, exist_ok=True)
    json.dump(ev, open(os.path.join(EVID, prop + ".json"), "w"), indent=1, sort_keys=False)
    log("%s %s seed=%d: evaluations=%d distinct_nontrivial=%d violations=%d known=%d inconclusive=%d wall=%.1fs" % (
        prop, agg.tier, agg.seed, agg.evaluations, len(agg.hashes), len(real), len(known), len(agg.inconclusive), time.time() - agg.t0))
    if real:
        return 1
    if short:
        log("INCONCLUSIVE monitors observed %d events, floor is %d" % (agg.evaluations, floor))
        return 2
    return 0


def salvage(agg, job):
    """Violation records streamed to disk by a shard that did not finish (watchdog, crash)."""
    p = job["out"] + ".viol"
    if os.path.exists(job["out"]) or not os.path.exists(p):
        return 0
    n = 0
    for ln in open(p, errors="replace"):
        try:
            agg.violations.append(json.loads(ln))
            n += 1
        except Exception:
            pass
    return n


def crash_violation(prop, cfg, job, st, rc, sub="process"):
    """A child that died (panic escaping recover, runtime fatal error, sanitizer report) is an observation."""
    about = job["out"] + ".about"
    case = {"op": "none"}
    if os.path.exists(about):
        try:
            case = json.load(open(about))
        except Exception:
            pass
    tail = ""
    try:
        tail = open(job["log"]).read()[-1500:]
    except OSError:
        pass
    return {"property": prop, "sub": sub, "config": cfg, "sig": "crash/rc=%s" % rc,
            "what": "child process died (rc=%s) while running the recorded case; log tail: %s" % (rc, tail.replace("\n", " | ")[-600:]),
            "case": case}


# ---------------------------------------------------------------- engines

def engine_apimon(prop, tier, seed, spec):
    agg = Agg(prop, tier, seed)
    cfgs = spec["configs"][tier]
    nsh = spec.get("shards", {}).get(tier, NCPU)
    wdir = os.path.join(WORK, prop, "shards")
    shutil.rmtree(wdir, ignore_errors=True)
    os.makedirs(wdir, exist_ok=True)
    jobs = []
    for ci, ent in enumerate(cfgs):
        cfg, scale = ent[0], ent[1]
        mode = ent[2] if len(ent) > 2 else ""
        try:
            binp = build(cfg, "apimon", race=(mode == "race"), asan=(mode == "asan"))
        except BuildError as e:
            log(str(e))
            agg.inconclusive.append("%s%s: build failed" % (cfg, "-" + mode if mode else ""))
            continue
        label = cfg + ("+" + mode if mode else "")
        env = dict(os.environ)
        if mode == "race":
            env["GORACE"] = "halt_on_error=1"
        if mode == "asan":
            env["ASAN_OPTIONS"] = "halt_on_error=1:abort_on_error=1:detect_leaks=0"
        for s in range(nsh):
            out = os.path.join(wdir, "%s-%d.json" % (label, s))
            jobs.append({"cfg": label, "out": out, "log": out + ".log", "env": env,
                         "args": [binp, "-prop", prop, "-tier", tier, "-seed", str(seed), "-shard", str(s), "-nshards", str(nsh),
                                  "-config", cfg, "-scale", str(scale), "-out", out]})
    if not jobs:
        return finish(agg, spec)
    for j, st, rc in run_shards(jobs, spec.get("timeout", {}).get(tier, 1800)):
        if st == "timeout":
            k = salvage(agg, j)
            agg.inconclusive.append("%s shard watchdog fired (%s)%s" % (j["cfg"], os.path.basename(j["out"]), "; %d violation records written before it were kept" % k if k else ""))
            continue
        if os.path.exists(j["out"]):
            agg.add_record(j["out"], j["cfg"])
        if st == "crash":
            if rc == 3:
                agg.inconclusive.append("%s: harness reported inconclusive (rc=3): %s" % (j["cfg"], open(j["log"]).read()[-300:]))
            else:
                salvage(agg, j)
                agg.violations.append(crash_violation(prop, j["cfg"], j, st, rc))
    return finish(agg, spec)


def engine_transcript(prop, tier, seed, spec):
    """C08: one call list (built by the model), executed by one binary per build configuration;
    the transcripts must be byte-identical."""
    agg = Agg(prop, tier, seed)
    cfgs = spec["configs"][tier]
    wdir = os.path.join(WORK, prop, "shards")
    shutil.rmtree(wdir, ignore_errors=True)
    os.makedirs(wdir, exist_ok=True)
    bins = {}
    for cfg in cfgs:
        try:
            bins[cfg] = build(cfg, "transcript")
        except BuildError as e:
            log(str(e))
            agg.inconclusive.append("%s: build failed" % cfg)
    ref_cfg = cfgs[0]
    if ref_cfg not in bins or len(bins) < 2:
        return finish(agg, spec)
    parts = spec.get("parts", {}).get(tier, NCPU)
    gjobs = []
    for part in range(parts):
        out = os.path.join(wdir, "calls-%d.jsonl" % part)
        gjobs.append({"out": out, "log": out + ".log", "part": part,
                      "args": [bins[ref_cfg], "-gen", "-seed", str(seed * 1000 + part), "-tier", tier, "-out", out]})
    for j, st, rc in run_shards(gjobs, 1800):
        if st != "ok":
            agg.inconclusive.append("call-list generation part %d: %s rc=%s" % (j["part"], st, rc))
    jobs = []
    for cfg, binp in bins.items():
        for part in range(parts):
            calls = os.path.join(wdir, "calls-%d.jsonl" % part)
            if not os.path.exists(calls):
                continue
            out = os.path.join(wdir, "tr-%s-%d.txt" % (cfg, part))
            jobs.append({"cfg": cfg, "part": part, "out": out, "log": out + ".log", "args": [binp, "-exec", calls, "-out", out]})
    status = {}
    for j, st, rc in run_shards(jobs, spec.get("timeout", {}).get(tier, 3600)):
        status[(j["cfg"], j["part"])] = (st, rc, j)
    classes = {}
    nlines = 0
    for part in range(parts):
        calls_p = os.path.join(wdir, "calls-%d.jsonl" % part)
        if not os.path.exists(calls_p):
            continue
        st, rc, j = status.get((ref_cfg, part), ("missing", None, None))
        if st != "ok":
            if st == "timeout":
                agg.inconclusive.append("%s part %d: watchdog" % (ref_cfg, part))
            else:
                agg.violations.append({"property": prop, "sub": "transcript", "config": ref_cfg, "sig": "crash", "what": "transcript process died rc=%s" % rc, "case": {"op": "none"}})
            continue
        ref_lines = open(j["out"]).read().splitlines()
        calls = open(calls_p).read().splitlines()
        for ln in calls:
            agg.hashes.add(hashlib.sha1(ln.encode()).digest()[:8])
        for i, ln in enumerate(calls):
            try:
                cl = json.loads(ln).get("class", "?")
            except Exception:
                cl = "?"
            classes[cl] = classes.get(cl, 0) + 1
        if len(agg.samples) < 6 and ref_lines:
            k = (part * 37) % len(ref_lines)
            c = json.loads(calls[k])
            for fld in ("keys", "msgs", "sigs"):
                if fld in c:
                    c[fld] = "%d entries" % len(c[fld])
            agg.samples.append({"call": c, "transcript_line": ref_lines[k][:200]})
        c0 = agg.configs.setdefault(ref_cfg, {"evaluations": 0, "shards": 0})
        c0["evaluations"] += len(ref_lines)
        c0["shards"] += 1
        nlines += len(ref_lines)
        for cfg in bins:
            if cfg == ref_cfg:
                continue
            st, rc, j2 = status.get((cfg, part), ("missing", None, None))
            if st == "timeout":
                agg.inconclusive.append("%s part %d: watchdog" % (cfg, part))
                continue
            if st != "ok":
                agg.violations.append({"property": prop, "sub": "transcript", "config": cfg, "sig": "crash", "what": "transcript process died rc=%s: %s" % (rc, open(j2["log"]).read()[-400:] if j2 else ""), "case": {"op": "none"}})
                continue
            lines = open(j2["out"]).read().splitlines()
            cc = agg.configs.setdefault(cfg, {"evaluations": 0, "shards": 0})
            cc["evaluations"] += len(lines)
            cc["shards"] += 1
            nlines += len(lines)
            ndiff = 0
            if len(lines) != len(ref_lines):
                agg.violations.append({"property": prop, "sub": "transcript", "config": cfg, "sig": "length", "what": "transcript of %s has %d lines, %s has %d" % (cfg, len(lines), ref_cfg, len(ref_lines)), "case": {"op": "none"}})
            for i, (a, b) in enumerate(zip(ref_lines, lines)):
                if a != b:
                    ndiff += 1
                    if ndiff <= 3:
                        call = json.loads(calls[i])
                        agg.violations.append({"property": prop, "sub": "transcript", "config": cfg, "sig": "diff/%s" % call.get("op"),
                                               "what": "configurations %s and %s disagree on a %s call (class %s): %s vs %s" % (ref_cfg, cfg, call.get("op"), call.get("class"), a[:120], b[:120]),
                                               "case": {"op": "transcript", "call": call, "ref_config": ref_cfg, "config": cfg, "ref_line": a, "line": b}})
            agg.nviol += ndiff
    agg.evaluations = nlines
    agg.classes = classes
    return finish(agg, spec, {"configs_compared": list(bins.keys()), "reference_config": ref_cfg})


def replay_transcript(path, v, cfg, spec):
    case = v.get("case", {})
    call = case.get("call")
    if call is None:
        log("record has no call to replay")
        return 2
    wdir = os.path.join(WORK, "replay")
    os.makedirs(wdir, exist_ok=True)
    cf = os.path.join(wdir, "call.jsonl")
    open(cf, "w").write(json.dumps(call) + "\n")
    outs = {}
    for c in (case.get("ref_config", "K0"), case.get("config", cfg)):
        b = build(c, "transcript")
        o = os.path.join(wdir, "tr-%s.txt" % c)
        subprocess.run([b, "-exec", cf, "-out", o], check=False)
        outs[c] = open(o).read()
    vals = list(outs.values())
    if len(set(vals)) > 1:
        log("REPLAY-VIOLATION property=%s configurations disagree: %s" % (v.get("property"), json.dumps(outs)[:400]))
        return 1
    log("REPLAY-OK: configurations agree on the recorded call")
    return 0


def parse_race_logs(pattern):
    """Returns (number of DATA RACE blocks, {dedup key: first block text})."""
    total, uniq = 0, {}
    for f in glob.glob(pattern):
        txt = open(f, errors="replace").read()
        for blk in txt.split("==================")[0:]:
            if "WARNING: DATA RACE" not in blk:
                continue
            total += 1
            frames = re.findall(r"^\s+([\w./*()\-]+)\(\)\n\s+(\S+?):\d+", blk, re.M)
            lib = [fn for fn, fl in frames if "oasisprotocol/ed25519" in fn and "/verifh/" not in fn]
            key = "|".join(sorted(set(lib[:2]))) or "|".join(fn for fn, _ in frames[:2])
            uniq.setdefault(key, blk.strip()[:1500])
    return total, uniq


def engine_conc(prop, tier, seed, spec):
    """C15: race detector + history monitor (solitary result per distinct call from a fresh process)
    + package-level state monitor."""
    agg = Agg(prop, tier, seed)
    cfgs = spec["configs"][tier]
    wdir = os.path.join(WORK, prop, "shards")
    shutil.rmtree(wdir, ignore_errors=True)
    os.makedirs(wdir, exist_ok=True)
    thorough = tier == "thorough"
    built = {}
    for cfg in cfgs:
        try:
            b = {"tr": build(cfg, "transcript")}
            # the sequential / 386 runs use the monitored-build overlay so that the generated
            # VerifStateDump() of every package is available to the state monitor; if the overlay
            # does not apply to this tree the plain build is used (exported state only)
            try:
                ov, _rep = monitored_overlay(cfg)
                b["plain"] = build(cfg, "conc", overlay=ov, extra_tags=["verifshim"], suffix="-shim")
                b["state"] = "all package-level variables (generated dump)"
            except BuildError:
                b["plain"] = build(cfg, "conc")
                b["state"] = "exported variables only (overlay not applicable)"
                agg.inconclusive.append("%s: state monitor limited to exported variables (shim overlay did not build)" % cfg)
            if CONFIGS[cfg]["env"].get("GOARCH") != "386":
                b["race"] = build(cfg, "conc", race=True)
            built[cfg] = b
        except BuildError as e:
            log(str(e))
            agg.inconclusive.append("%s: build failed" % cfg)
    if not built:
        return finish(agg, spec)
    first = next(iter(built))
    pool = os.path.join(wdir, "pool.jsonl")
    groups = 8 if not thorough else 24
    p = subprocess.run([built[first]["plain"], "-genpool", "-groups", str(groups), "-seed", str(seed), "-out", pool], stdout=subprocess.PIPE, stderr=subprocess.STDOUT, text=True)
    if p.returncode != 0:
        agg.inconclusive.append("pool generation failed: " + p.stdout[-300:])
        return finish(agg, spec)
    npool = len(open(pool).read().splitlines())
    # solitary results: every call alone in its own fresh process, per configuration
    jobs = []
    for cfg, b in built.items():
        for i in range(npool):
            out = os.path.join(wdir, "solo-%s-%d.txt" % (cfg, i))
            jobs.append({"cfg": cfg, "i": i, "out": out, "log": out + ".log", "args": [b["tr"], "-exec", pool, "-only", str(i), "-out", out]})
    for j, st, rc in run_shards(jobs, 300):
        if st != "ok":
            agg.inconclusive.append("%s: solitary execution of call %d: %s rc=%s" % (j["cfg"], j["i"], st, rc))
    solo = {}
    for cfg in built:
        path = os.path.join(wdir, "solo-%s.txt" % cfg)
        with open(path, "w") as f:
            for i in range(npool):
                pth = os.path.join(wdir, "solo-%s-%d.txt" % (cfg, i))
                if os.path.exists(pth):
                    f.write(open(pth).read())
                    os.remove(pth)
                if os.path.exists(pth + ".log"):
                    os.remove(pth + ".log")
        solo[cfg] = path
    agg.classes["solitary-fresh-process-executions"] = npool * len(built)
    # workload shards
    jobs = []
    reps = 3 if thorough else 1
    for cfg, b in built.items():
        for k in range(2 if not thorough else 6):
            out = os.path.join(wdir, "seq-%s-%d.json" % (cfg, k))
            jobs.append({"cfg": cfg, "out": out, "log": out + ".log", "kind": "seq",
                         "args": [b["plain"], "-pool", pool, "-solo", solo[cfg], "-mode", "seq", "-ops", str(npool * (2 if not thorough else 10)), "-seed", str(seed), "-shard", str(k), "-config", cfg, "-out", out]})
        binp = b.get("race", b["plain"])
        shapes = [(4, 2), (16, 4), (64, 16), (16, 16)] if not thorough else [(g, pr) for g in (4, 16, 64) for pr in (2, 4, 16)]
        for rep in range(reps):
            for si, (G, procs) in enumerate(shapes):
                k = rep * 100 + si
                out = os.path.join(wdir, "conc-%s-%d.json" % (cfg, k))
                env = dict(os.environ)
                env["GORACE"] = "halt_on_error=0 log_path=%s" % os.path.join(wdir, "race-%s-%d" % (cfg, k))
                ops = 2500 if not thorough else 12000
                jobs.append({"cfg": cfg, "out": out, "log": out + ".log", "kind": "conc", "env": env,
                             "args": [binp, "-pool", pool, "-solo", solo[cfg], "-mode", "conc", "-G", str(G), "-procs", str(procs), "-ops", str(ops),
                                      "-seed", str(seed), "-shard", str(k), "-config", cfg, "-out", out]})
    rc66 = []
    for j, st, rc in run_shards(jobs, spec.get("timeout", {}).get(tier, 1800)):
        if st == "timeout":
            agg.inconclusive.append("%s %s shard watchdog" % (j["cfg"], j["kind"]))
            continue
        if os.path.exists(j["out"]):
            agg.add_record(j["out"], j["cfg"])
        if st == "crash":
            tail = open(j["log"], errors="replace").read()[-2000:]
            if rc == 3:
                agg.inconclusive.append("%s: %s" % (j["cfg"], tail[-300:]))
            elif rc == 66:
                rc66.append(j)  # exit code of the race runtime; the blocks are counted from the logs below
            else:
                agg.violations.append({"property": prop, "sub": "process", "config": j["cfg"], "sig": "crash/" + j["kind"],
                                       "what": "%s workload process died rc=%s: %s" % (j["kind"], rc, tail.replace("\n", " | ")[-700:]),
                                       "case": {"op": "conc-shard", "args": j["args"][1:]}})
    total_races = 0
    for cfg in built:
        n, uniq = parse_race_logs(os.path.join(wdir, "race-%s-*" % cfg))
        total_races += n
        for key, blk in uniq.items():
            agg.violations.append({"property": prop, "sub": "race-detector", "config": cfg, "sig": "race/" + key,
                                   "what": "DATA RACE reported by the Go race detector (%d blocks in this configuration), outermost library frames: %s" % (n, key),
                                   "case": {"op": "race", "report": blk}})
    if rc66 and total_races == 0:
        for j in rc66:
            agg.violations.append({"property": prop, "sub": "process", "config": j["cfg"], "sig": "crash/rc66", "what": "workload process exited with the race runtime's status 66 but no report was found", "case": {"op": "conc-shard", "args": j["args"][1:]}})
    agg.classes["race-detector/DATA-RACE-blocks"] = total_races
    agg.classes["race-detector/instrumented-configs"] = len([c for c in built if "race" in built[c]])
    extra = {"pool_calls": npool, "goroutine_shapes(G,GOMAXPROCS)": "see shards", "race_blocks": total_races}
    pairs = agg.classes.get("distinct-overlapping-kind-pairs", 0)
    if agg.classes.get("max/concurrency", 0) < 2 or pairs < 10:
        agg.inconclusive.append("too little overlap observed (max concurrency %s, overlapping kind pairs %s)" % (agg.classes.get("max/concurrency", 0), pairs))
        spec = dict(spec)
        spec["floor"] = 10 ** 12
    return finish(agg, spec, extra)


def replay_conc(path, v, cfg, spec):
    case = v.get("case", {})
    if case.get("op") == "history":
        call = case["call"]
        wdir = os.path.join(WORK, "replay")
        os.makedirs(wdir, exist_ok=True)
        cf = os.path.join(wdir, "call.jsonl")
        open(cf, "w").write(json.dumps(call) + "\n")
        b = build(cfg if cfg in CONFIGS else "K0", "transcript")
        o = os.path.join(wdir, "solo.txt")
        subprocess.run([b, "-exec", cf, "-out", o], check=False)
        got = open(o).read().split(" ", 2)[-1].strip()
        log("solitary result now: %.100s ; recorded solitary: %.100s ; recorded observed (%s): %.100s" % (got, case.get("solitary"), case.get("mode"), case.get("observed")))
    log("re-running the C15 quick workload")
    return main(["C15", "quick"])


def monitored_overlay(cfg):
    """Runs the instrumenter on the current tree for configuration cfg; returns the overlay file."""
    os.makedirs(BUILD, exist_ok=True)
    inst = os.path.join(BUILD, "instrument")
    p = subprocess.run(["go", "build"] + modfile_args() + ["-o", inst, "./cmd/instrument"], cwd=HARNESS, env=goenv(), stdout=subprocess.PIPE, stderr=subprocess.STDOUT, text=True)
    if p.returncode != 0:
        raise BuildError("instrumenter build failed:\n" + p.stdout[-2000:])
    c = CONFIGS[cfg]
    ovdir = os.path.join(BUILD, repo_tag(), cfg + "-mon", "ov")
    shutil.rmtree(ovdir, ignore_errors=True)
    os.makedirs(ovdir, exist_ok=True)
    p = subprocess.run([inst, "-repo", REPO, "-tags", " ".join(c["tags"]), "-goarch", c["env"].get("GOARCH", "amd64"),
                        "-shims", os.path.join(HARNESS, "inpkg"), "-out", ovdir], env=goenv(), stdout=subprocess.PIPE, stderr=subprocess.STDOUT, text=True)
    if p.returncode != 0:
        raise BuildError("instrumenter failed for %s:\n%s" % (cfg, p.stdout[-2000:]))
    rep = json.load(open(os.path.join(ovdir, "report.json")))
    return os.path.join(ovdir, "overlay.json"), rep


def run_layers(agg, prop, tier, seed, spec, cfgs, nsh, wdir, prefix="L"):
    jobs = []
    for ent in cfgs:
        cfg, scale = ent[0], ent[1]
        mode = ent[2] if len(ent) > 2 else ""
        try:
            ov, rep = monitored_overlay(cfg)
            binp = build(cfg, "layers", overlay=ov, extra_tags=["verifmon"], suffix="-mon", asan=(mode == "asan"))
            missing = [m for v in rep.values() for m in (v.get("missing") or [])]
            if missing:
                agg.inconclusive.append("%s: instrumenter did not find %s (monitors on them are absent)" % (cfg, ",".join(missing)))
        except BuildError as e:
            log(str(e)[-1500:])
            agg.inconclusive.append("%s: monitored build failed (overlay not applicable to this tree?)" % cfg)
            continue
        label = cfg + ("+" + mode if mode else "")
        env = dict(os.environ)
        if mode == "asan":
            env["ASAN_OPTIONS"] = "halt_on_error=1:abort_on_error=1:detect_leaks=0"
        for s_ in range(nsh):
            out = os.path.join(wdir, "%s%s-%d.json" % (prefix, label, s_))
            jobs.append({"cfg": label, "out": out, "log": out + ".log", "env": env,
                         "args": [binp, "-prop", prop, "-tier", tier, "-seed", str(seed), "-shard", str(s_), "-nshards", str(nsh),
                                  "-config", cfg, "-scale", str(scale), "-out", out]})
    for j, st, rc in run_shards(jobs, spec.get("timeout", {}).get(tier, 2400)):
        if st == "timeout":
            k = salvage(agg, j)
            agg.inconclusive.append("%s monitored-build shard watchdog fired (%s)%s" % (j["cfg"], os.path.basename(j["out"]), "; %d violation records written before it were kept" % k if k else ""))
            continue
        if os.path.exists(j["out"]):
            agg.add_record(j["out"], j["cfg"])
        if st == "crash":
            if rc == 3:
                agg.inconclusive.append("%s: harness reported inconclusive (rc=3): %s" % (j["cfg"], open(j["log"]).read()[-300:]))
            else:
                salvage(agg, j)
                agg.violations.append(crash_violation(prop, j["cfg"], j, st, rc, sub="monitored-build-process"))


def engine_layers(prop, tier, seed, spec):
    agg = Agg(prop, tier, seed)
    wdir = os.path.join(WORK, prop, "shards")
    shutil.rmtree(wdir, ignore_errors=True)
    os.makedirs(wdir, exist_ok=True)
    nsh = spec.get("shards", {}).get(tier, NCPU)
    run_layers(agg, prop, tier, seed, spec, spec["configs"][tier], nsh, wdir)
    return finish(agg, spec, layer_cov(agg))


def layer_cov(agg):
    """Digest of the monitored-build observations for the evidence file."""
    cl = agg.classes
    ev_ = {k[7:]: v for k, v in cl.items() if k.startswith("events/") and "digit/" not in k and "selector/" not in k}
    w4 = len([k for k in cl if k.startswith("events/w4digit/")])
    sel = len([k for k in cl if k.startswith("events/selector/")])
    sw = len([k for k in cl if k.startswith("events/swdigit/")])
    env = {k[13:]: hex(v) for k, v in cl.items() if k.startswith("max/envelope/")}
    # the direct workload must drive every field routine at least as hard as real API executions do
    under = []
    for k, v in cl.items():
        if k.startswith("max/envelope/api/") and "/out/" not in k:
            d = cl.get("max/envelope/direct/" + k[len("max/envelope/api/"):])
            if d is not None and v > d:
                under.append("%s api=%s direct=%s" % (k[len("max/envelope/api/"):], hex(v), hex(d)))
    if under:
        agg.inconclusive.append("direct field workload under-covers the operand magnitudes seen on API executions: " + "; ".join(sorted(under)[:6]))
    # keep the class table readable: fold the per-digit counters
    for k in [k for k in cl if k.startswith("events/w4digit/") or k.startswith("events/selector/") or k.startswith("events/swdigit/") or k.startswith("max/envelope/")]:
        del cl[k]
    return {"monitored_events": ev_, "radix16_(position,digit)_pairs_observed": w4, "selector_(position,digit)_pairs_observed": sel,
            "sliding_window_(window,zone,digit)_classes_observed": sw, "operand_envelope_max_limb": env}


def engine_api_plus_layers(prop, tier, seed, spec):
    """API-level monitors on the plain build plus the inside monitor on the monitored build."""
    agg = Agg(prop, tier, seed)
    cfgs = spec["configs"][tier]
    nsh = spec.get("shards", {}).get(tier, NCPU)
    wdir = os.path.join(WORK, prop, "shards")
    shutil.rmtree(wdir, ignore_errors=True)
    os.makedirs(wdir, exist_ok=True)
    jobs = []
    for cfg, scale in cfgs:
        try:
            binp = build(cfg, "apimon")
        except BuildError as e:
            log(str(e))
            agg.inconclusive.append("%s: build failed" % cfg)
            continue
        for s_ in range(nsh):
            out = os.path.join(wdir, "%s-%d.json" % (cfg, s_))
            jobs.append({"cfg": cfg, "out": out, "log": out + ".log",
                         "args": [binp, "-prop", prop, "-tier", tier, "-seed", str(seed), "-shard", str(s_), "-nshards", str(nsh),
                                  "-config", cfg, "-scale", str(scale), "-out", out]})
    for j, st, rc in run_shards(jobs, spec.get("timeout", {}).get(tier, 1800)):
        if st == "timeout":
            salvage(agg, j)
            agg.inconclusive.append("%s shard watchdog fired" % j["cfg"])
            continue
        if os.path.exists(j["out"]):
            agg.add_record(j["out"], j["cfg"])
        if st == "crash":
            if rc == 3:
                agg.inconclusive.append("%s: harness inconclusive: %s" % (j["cfg"], open(j["log"]).read()[-300:]))
            else:
                agg.violations.append(crash_violation(prop, j["cfg"], j, st, rc))
    api_evals = agg.evaluations
    run_layers(agg, prop, tier, seed, spec, spec["inside_configs"][tier], max(1, nsh // 4), wdir)
    if api_evals < spec.get("floor", 1):
        agg.evaluations = api_evals  # the floor applies to the API monitor alone
    cov = layer_cov(agg)
    cov["api_level_evaluations"] = api_evals
    return finish(agg, spec, cov)


def replay_layers(path, v, cfg, spec):
    case = v.get("case", {})
    if case.get("op") != "layer":
        return replay_apimon(path, v, cfg, spec)
    cfg = cfg.split("+")[0]
    if cfg not in CONFIGS:
        cfg = "K0"
    ov, _ = monitored_overlay(cfg)
    binp = build(cfg, "layers", overlay=ov, extra_tags=["verifmon"], suffix="-mon")
    return subprocess.run([binp, "-config", cfg, "-replay", path]).returncode


CT_OPS32 = ["keygen", "generatekey", "sign", "signctx", "signph", "x25519base", "scalarbasemult", "edpriv", "seed"]
CT_NEED = {"keygen": "ScalarmultBaseNiels", "generatekey": "ScalarmultBaseNiels", "sign": "ScalarmultBaseNiels", "signctx": "ScalarmultBaseNiels",
           "signph": "ScalarmultBaseNiels", "x25519base": "ScalarmultBaseNiels", "scalarbasemult": "ScalarmultBaseNiels", "edpriv": "EdPrivateKeyToX25519", "seed": None, "equal": None}


def count_overlay():
    """Rewrites every library source file with `go tool cover -mode=count` (one counter array per file, each
    registering itself in its package's VerifCovTable); returns the overlay file for `go build -overlay`."""
    ovdir = os.path.join(BUILD, repo_tag(), "cov-ov")
    shutil.rmtree(ovdir, ignore_errors=True)
    os.makedirs(ovdir, exist_ok=True)
    repl = {}
    n = 0
    for rel in ("", "extra/x25519", "internal/curve25519", "internal/ge25519", "internal/modm"):
        d = os.path.join(REPO, rel)
        pkg = None
        for f in sorted(os.listdir(d)):
            if not f.endswith(".go") or f.endswith("_test.go"):
                continue
            src = os.path.join(d, f)
            var = "VerifCov_%d" % n
            n += 1
            p = subprocess.run(["go", "tool", "cover", "-mode=count", "-var=" + var, src], env=goenv(), stdout=subprocess.PIPE, stderr=subprocess.PIPE, text=True)
            if p.returncode != 0:
                raise BuildError("go tool cover failed on %s: %s" % (src, p.stderr[-500:]))
            m = re.search(r"^package\s+(\w+)", p.stdout, re.M)
            pkg = m.group(1)
            body = p.stdout + "\nfunc init() { verifCovRegister(%s, %s.Count[:], %s.Pos[:]) }\n" % (json.dumps(os.path.join(rel, f)), var, var)
            dst = os.path.join(ovdir, (rel.replace("/", "_") or "root") + "__" + f)
            open(dst, "w").write(body)
            repl[src] = dst
        reg = os.path.join(ovdir, (rel.replace("/", "_") or "root") + "__verifcov_reg.go")
        open(reg, "w").write("package %s\n\n// VerifCovEntry is one instrumented source file: its block counters and block positions.\n"
                             "type VerifCovEntry struct {\n\tFile  string\n\tCount []uint32\n\tPos   []uint32\n}\n\n"
                             "var VerifCovTable []VerifCovEntry\n\nfunc verifCovRegister(f string, c, p []uint32) {\n"
                             "\tVerifCovTable = append(VerifCovTable, VerifCovEntry{f, c, p})\n}\n" % pkg)
        repl[os.path.join(d, "verifcov_reg.go")] = reg
    ov = os.path.join(ovdir, "overlay.json")
    json.dump({"Replace": repl}, open(ov, "w"), indent=1)
    return ov


def ct_cases(seed, thorough, slow=False):
    import random
    rnd = random.Random(seed * 7 + 20)
    ref = rnd.randbytes(32)
    secs = [ref, bytes(32), b"\xff" * 32, b"\x77" * 32, b"\x88" * 32]
    one = bytearray(32)
    one[rnd.randrange(32)] = 1 << rnd.randrange(8)
    secs.append(bytes(one))
    nrand = 2 if not thorough else 8
    for _ in range(nrand):
        secs.append(rnd.randbytes(32))
    if thorough:
        secs += [b"\x0f" * 32, b"\xf0" * 32, b"\x80" + bytes(31), bytes(31) + b"\x80", b"\x78" * 32, b"\x99" * 32]
    pub = rnd.randbytes(24)
    # secrets chosen so that a secret-derived scalar is unusually short (leading zero nibble / byte /
    # two bytes of the reduced secret scalar a or of the nonce r): magnitude-dependent loops or early
    # exits on secrets show up only on such values (1/16 .. 1/65536 of random secrets)
    import hashlib
    L = 2 ** 252 + 27742317777372353535851937790883648493
    DOM = b"SigEd25519 no Ed25519 collisions"

    def nonce(seed, op, raw=False):
        h = hashlib.sha512(seed).digest()
        if op == "signctx":
            pre = DOM + bytes([0, len(b"some context")]) + b"some context"
            m = pub
        elif op == "signph":
            pre = DOM + bytes([1, len(b"ph context")]) + b"ph context"
            m = hashlib.sha512(pub).digest()
        else:
            pre, m = b"", pub
        v = int.from_bytes(hashlib.sha512(pre + h[32:] + m).digest(), "little")
        return v if raw else v % L

    def scalar_a(seed):
        h = bytearray(hashlib.sha512(seed).digest()[:32])
        h[0] &= 248
        h[31] &= 127
        h[31] |= 64
        return int.from_bytes(bytes(h), "little") % L

    def short(fn, bits, tries):
        for _ in range(tries):
            sd = rnd.randbytes(32)
            if fn(sd) < 2 ** bits:
                return sd
        return None
    targeted = {}
    for op in ("sign", "signctx", "signph"):
        t = [short(lambda sd: nonce(sd, op), 248, 400), short(lambda sd: nonce(sd, op), 244, 4000)]
        # the unreduced 64-byte nonce digest with a zero top byte (length-dependent handling before the reduction)
        t.append(short(lambda sd: nonce(sd, op, raw=True), 504, 6000))
        if thorough:
            t.append(short(lambda sd: nonce(sd, op), 236, 300000))
            t.append(short(lambda sd: nonce(sd, op, raw=True), 496, 600000))
        targeted[op] = [x for x in t if x]
    ta = [short(scalar_a, 248, 400), short(scalar_a, 244, 4000)]
    if thorough:
        ta.append(short(scalar_a, 236, 300000))
    for op in ("keygen", "generatekey"):
        targeted[op] = [x for x in ta if x]
    # signing multiplies by the secret scalar: one with its top 30-bit limb zero (a < 2^240, 1 key in 4096)
    tiny = short(scalar_a, 240, 120000)
    if tiny:
        for op in ("sign", "signctx", "signph", "keygen"):
            targeted[op].append(tiny)
    ct_cases.last = {"ref": ref, "pub": pub, "targeted": targeted}
    cases = []
    ops = CT_OPS32
    for op in ops:
        sl = secs
        if not thorough and op in ("signctx", "signph", "scalarbasemult", "generatekey", "edpriv", "seed"):
            sl = secs[:3]
        elif not thorough:
            sl = secs[:6]
        if slow:
            sl = secs[:3]
        sl = list(sl) + (targeted.get(op, [])[:1] if slow else targeted.get(op, []))
        cases.append((op, [(x, x) for x in sl], pub))
    # Equal: arbitrary 64-byte keys; reference pair is (K, K)
    K = rnd.randbytes(64)
    def flip(i):
        b = bytearray(K)
        b[i] ^= 1 << rnd.randrange(8)
        return bytes(b)
    pairs = [(K, K)] + [(K, flip(i)) for i in (0, 7, 8, 31, 32, 40, 63)] + [(K, bytes(x ^ 0xff for x in K))]
    if thorough:
        pairs += [(K, flip(i)) for i in (1, 15, 16, 24, 33, 47, 48, 56)]
    if slow:
        pairs = pairs[:4]
    cases.append(("equal", pairs, pub))
    return cases


def engine_ct(prop, tier, seed, spec):
    """C20: lackey instruction/address traces of executions differing only in secrets."""
    import pickle
    sys.path.insert(0, os.path.join(VERIF, "tools"))
    import cttrace
    agg = Agg(prop, tier, seed)
    thorough = tier == "thorough"
    wdir = os.path.join(WORK, prop, "shards")
    shutil.rmtree(wdir, ignore_errors=True)
    os.makedirs(wdir, exist_ok=True)
    os.environ["VERIF_CT_TMP"] = os.path.join(WORK, prop, "tmp")
    bins = {}
    for cfg in spec["configs"][tier]:
        try:
            bins[cfg] = build(cfg, "ctvictim", static=True)
        except BuildError as e:
            log(str(e))
            agg.inconclusive.append("%s: build failed" % cfg)
    jobs = []
    plan = {}
    pyenv = goenv({"VERIF_CT_TMP": os.environ["VERIF_CT_TMP"]})
    for cfg, binp in bins.items():
        slow = CONFIGS[cfg]["env"].get("GOARCH") == "386" or cfg in spec.get("reduced", {}).get(tier, [])
        for op, pairs, pub in ct_cases(seed, thorough, slow):
            for k, (a, b) in enumerate(pairs):
                out = os.path.join(wdir, "%s-%s-%d.pkl" % (cfg, op, k))
                # the unmeasured warm-up call uses the reference secrets, so that the reference execution repeats
                # its secret and every other execution changes it (a memo keyed by secret material shows)
                jobs.append({"cfg": cfg, "op": op, "k": k, "out": out, "log": out + ".log", "env": pyenv,
                             "args": [sys.executable, os.path.join(VERIF, "tools", "cttrace.py"), "trace", binp, out, op, a.hex(), b.hex(), pub.hex(), pairs[0][0].hex(), pairs[0][1].hex()]})
                plan.setdefault((cfg, op), []).append((k, a, b, pub, out))
    res = run_shards(jobs, spec.get("timeout", {}).get(tier, 1800))
    bad_jobs = {(j["cfg"], j["op"], j["k"]): (st, rc) for j, st, rc in res if st != "ok"}
    ntr = 0
    for (cfg, op), lst in plan.items():
        binp = bins[cfg]
        traces = {}
        for k, a, b, pub, out in lst:
            if (cfg, op, k) in bad_jobs or not os.path.exists(out):
                agg.inconclusive.append("%s %s secret #%d: trace not obtained %s" % (cfg, op, k, bad_jobs.get((cfg, op, k))))
                continue
            traces[k] = pickle.load(open(out, "rb"))
            os.remove(out)
            ntr += 1
        if 0 not in traces:
            continue
        ref = traces[0]
        need = CT_NEED.get(op)
        if need and not any(any(need in f for f in t["funcs"]) for t in traces.values()):
            agg.inconclusive.append("%s %s: traced window does not contain %s" % (cfg, op, need))
            continue
        agg.classes["traces/%s/%s" % (cfg, op)] = len(traces)
        agg.classes["prologue-reexecutions-removed(scheduler noise)"] = agg.classes.get("prologue-reexecutions-removed(scheduler noise)", 0) + sum(t.get("prologue_reexecutions_removed", 0) for t in traces.values())
        agg.classes["max/trace-instructions/%s" % op] = max(agg.classes.get("max/trace-instructions/%s" % op, 0), len(ref["pcs"]))
        agg.classes["max/trace-memops/%s" % op] = max(agg.classes.get("max/trace-memops/%s" % op, 0), len(ref["mem"]))
        if len(agg.samples) < 8:
            libf = sorted((f for f in ref["funcs"] if "oasisprotocol/ed25519" in f), key=lambda f: -ref["funcs"][f])[:8]
            agg.samples.append({"config": cfg, "op": op, "secrets_compared": len(traces), "instructions_in_window": len(ref["pcs"]), "memory_ops": len(ref["mem"]),
                                "functions_in_window": len(ref["funcs"]), "top_library_functions": libf})
        for k, a, b, pub, out in lst:
            if k == 0 or k not in traces:
                continue
            agg.evaluations += 1
            agg.hashes.add(hashlib.sha1(("%s/%s/%s/%s" % (cfg, op, a.hex(), b.hex())).encode()).digest()[:8])
            if len(agg.violations) >= 8:
                # enough confirmed divergences to fail the run; confirming each further one costs four more traces
                agg.classes["trace-pairs-not-compared-after-8-confirmed-violations"] = agg.classes.get("trace-pairs-not-compared-after-8-confirmed-violations", 0) + 1
                continue
            d = cttrace.compare(binp, ref, traces[k])
            if d is None:
                continue
            # a divergence must reproduce in fresh traces of both executions (3 of 3); if both fresh
            # pairs are equivalent the first divergence was trace noise (the Go scheduler's cooperative
            # pre-emption re-executes a function prologue; seen when the machine is loaded) and the pair
            # counts as held on the fresh traces; anything in between is inconclusive
            k0, a0, b0, _, _ = lst[0]
            repro = 1
            fresh_ref = None

            def dsig(x):
                if x.get("kind") == "control-flow":
                    return ("control-flow", x.get("index"), x.get("a"), x.get("b"))
                return (x.get("kind"), x.get("index"), x.get("at"))  # raw stack/heap addresses vary from process to process
            for _ in range(2):
                t1 = cttrace.trace(binp, [op, a0.hex(), b0.hex(), pub.hex(), a0.hex(), b0.hex()])
                t2 = cttrace.trace(binp, [op, a.hex(), b.hex(), pub.hex(), a0.hex(), b0.hex()])
                d2 = cttrace.compare(binp, t1, t2)
                if d2 is None:
                    fresh_ref = t1
                elif dsig(d2) == dsig(d):
                    repro += 1  # the same divergence at the same place: secrets, not noise, steer it
                else:
                    repro += 0.5  # a divergence elsewhere: noise in at least one of the runs
            if repro == 1:
                agg.classes["noisy-first-trace-pairs(re-traced twice, equivalent)"] = agg.classes.get("noisy-first-trace-pairs(re-traced twice, equivalent)", 0) + 1
                if fresh_ref is not None and cttrace.compare(binp, fresh_ref, traces[k]) is None:
                    ref = fresh_ref  # the stored reference trace was the noisy one
                continue
            if repro < 3:
                agg.inconclusive.append("%s %s secret #%d: divergence (%s) did not reproduce identically in both fresh trace pairs (score %s of 3)" % (cfg, op, k, d.get("kind"), repro))
                continue
            agg.violations.append({"property": prop, "sub": "trace-equality", "config": cfg, "sig": "ct/%s/%s" % (op, d.get("kind")),
                                   "what": "%s: executions differing only in the secret diverge (%s): %s" % (op, d.get("kind"), json.dumps(d)[:400]),
                                   "case": {"op": "ct", "ct_op": op, "secret_a": a0.hex(), "secret_a2": b0.hex(), "secret_b": a.hex(), "secret_b2": b.hex(), "public": pub.hex(), "divergence": d}})
    agg.classes["traces-total"] = ntr
    for cfg in bins:
        agg.configs[cfg] = {"evaluations": sum(v for k, v in agg.classes.items() if k.startswith("traces/%s/" % cfg)), "shards": 1}
    ntrace_evals = agg.evaluations
    run_ctcount(agg, prop, tier, seed, spec, wdir)
    agg.classes["evaluations/trace-pairs"] = ntrace_evals
    agg.classes["evaluations/block-count-vectors"] = agg.evaluations - ntrace_evals
    if ntrace_evals < spec.get("trace_floor", 1) and not os.environ.get("VERIF_ONLY_CONFIGS"):
        agg.inconclusive.append("only %d trace pairs were compared, floor is %d" % (ntrace_evals, spec.get("trace_floor", 1)))
    return finish(agg, spec, {"tool": "valgrind --tool=lackey --trace-mem=yes; go tool cover -mode=count block counters",
                              "window": "second markBegin..markEnd (the first pair is an unmeasured call with the reference secret)"})


def ctcount_secrets(seed, thorough, wdir):
    ct_cases(seed, thorough)
    last = ct_cases.last
    sf = os.path.join(wdir, "targeted-secrets.txt")
    with open(sf, "w") as f:
        for op, lst in last["targeted"].items():
            for x in lst:
                f.write("%s %s\n" % (op, x.hex()))
    return sf, last["ref"], last["pub"]


def run_ctcount(agg, prop, tier, seed, spec, wdir):
    """C20, second monitor: per-basic-block execution counts of the library (sources rewritten by
    `go tool cover -mode=count`, injected by overlay) must not depend on the secret."""
    thorough = tier == "thorough"
    cfgs = spec.get("count_configs", {}).get(tier, [])
    if not cfgs:
        return
    try:
        ov = count_overlay()
    except BuildError as e:
        log(str(e))
        agg.inconclusive.append("block-count monitor: source rewriting failed")
        return
    sf, ref, pub = ctcount_secrets(seed, thorough, wdir)
    nsh, n = (16, 20000) if thorough else (8, 1500)
    jobs = []
    for cfg in cfgs:
        try:
            binp = build(cfg, "ctcount", overlay=ov, extra_tags=("verifcov",), suffix="-cov")
        except BuildError as e:
            log(str(e))
            agg.inconclusive.append("%s: build of the block-count victim failed" % cfg)
            continue
        nn = n // 4 if CONFIGS[cfg]["env"].get("GOARCH") == "386" else n
        for sh in range(nsh):
            out = os.path.join(wdir, "count-%s-%d.json" % (cfg, sh))
            jobs.append({"cfg": cfg, "out": out, "log": out + ".log",
                         "args": [binp, "-config", cfg, "-seed", str(seed), "-shard", str(sh), "-n", str(nn), "-secrets", sf, "-pub", pub.hex(), "-ref", ref.hex(), "-out", out]})
    for j, st, rc in run_shards(jobs, spec.get("timeout", {}).get(tier, 1800)):
        if st == "timeout":
            k = salvage(agg, j)
            agg.inconclusive.append("%s block-count shard watchdog fired (%s)" % (j["cfg"], os.path.basename(j["out"])))
            continue
        if os.path.exists(j["out"]):
            agg.add_record(j["out"], j["cfg"] + "/count")
        if st == "crash":
            salvage(agg, j)
            agg.violations.append(crash_violation(prop, j["cfg"], j, st, rc))


def replay_ctcount(path, v, cfg, c):
    ov = count_overlay()
    cfg = cfg.split("/")[0]
    binp = build(cfg if cfg in CONFIGS else "K0", "ctcount", overlay=ov, extra_tags=("verifcov",), suffix="-cov")
    sf = path + ".secrets"
    open(sf, "w").write("%s %s\n" % (c["ct_op"], c["secret_b"]))
    out = path + ".replay.json"
    if c["ct_op"] == "equal":
        log("replay of an 'equal' block-count case re-runs the whole equal workload")
        args = [binp, "-config", cfg, "-seed", "1", "-n", "400", "-ops", "equal", "-pub", c["public"], "-ref", c["secret_a"][:64], "-out", out]
    else:
        args = [binp, "-config", cfg, "-seed", "1", "-n", "0", "-ops", c["ct_op"], "-secrets", sf, "-pub", c["public"], "-ref", c["secret_a"], "-out", out]
    subprocess.run(args, env=goenv())
    r = json.load(open(out))
    if r.get("n_violations"):
        log("REPLAY-VIOLATION property=%s %s" % (v.get("property"), r["violations"][0]["what"][:500]))
        return 1
    log("REPLAY-OK: block counts do not depend on the secret on this tree")
    return 0


def replay_ct(path, v, cfg, spec):
    sys.path.insert(0, os.path.join(VERIF, "tools"))
    import cttrace
    c = v.get("case", {})
    binp = build(cfg if cfg in CONFIGS else "K0", "ctvictim", static=True)
    os.environ.update(GOENV)
    if c.get("op") == "ctcount":
        return replay_ctcount(path, v, cfg, c)
    t1 = cttrace.trace(binp, [c["ct_op"], c["secret_a"], c["secret_a2"], c["public"], c["secret_a"], c["secret_a2"]])
    t2 = cttrace.trace(binp, [c["ct_op"], c["secret_b"], c["secret_b2"], c["public"], c["secret_a"], c["secret_a2"]])
    d = cttrace.compare(binp, t1, t2)
    if d is not None:
        log("REPLAY-VIOLATION property=%s traces diverge: %s" % (v.get("property"), json.dumps(d)[:500]))
        return 1
    log("REPLAY-OK: traces are equivalent on this tree")
    return 0


ENGINES = {"apimon": engine_apimon, "transcript": engine_transcript, "conc": engine_conc, "ct": engine_ct,
           "layers": engine_layers, "api+layers": engine_api_plus_layers}

API_RULE_VERIFY = ("triples are built constructively with the big-integer model (W-honest, W-torsion 8x8, W-smallkey x W-Sbound, "
                   "W-noncanonR, single-bit perturbations, S+kL, W-garbage, signature lengths 0..70) and judged by the model predicate; "
                   "non-trivial = every judged (mode, triple) except length rejects and undecodable random garbage; distinct = FNV-64 of "
                   "(mode, key, message, signature, variant, context)")

SPECS = {
    "C01": {"engine": "apimon", "configs": {"quick": [("K0", 1), ("K2", 0.25)], "thorough": [("K0", 1), ("K2", 0.1), ("K6", 0.1)]}, "floor": 3000, "rule": API_RULE_VERIFY},
    "C02": {"engine": "apimon", "configs": {"quick": [("K0", 1), ("K2", 0.25)], "thorough": [("K0", 1), ("K2", 0.13), ("K6", 0.13)]}, "floor": 2500,
            "rule": "(seed, message, variant/context) combinations; each is signed through every option form and compared byte-for-byte with the RFC 8032 model and crypto/ed25519; all are non-trivial; distinct = FNV-64 of (seed, message, variant, context)"},
    "C03": {"engine": "apimon", "configs": {"quick": [("K0", 1), ("K2", 0.25)], "thorough": [("K0", 1), ("K2", 0.2), ("K6", 0.2)]}, "floor": 1200,
            "rule": "library-made signatures checked in single default, single ZIP-215 and as batch member (both modes) at swept positions/sizes/entropy streams; distinct = FNV-64 of (seed, message, variant, context, n, pos, entropy)"},
    "C04": {"engine": "api+layers", "configs": {"quick": [("K0", 1), ("K2", 0.25)], "thorough": [("K0", 1), ("K2", 0.1), ("K6", 0.1)]}, "inside_configs": {"quick": [("K0", 1)], "thorough": [("K0", 1), ("K2", 0.3)]},
            "floor": 2000, "rule": API_RULE_VERIFY + "; plus every scMinimal call of the monitored build (driven directly with W-Sbound, every comparison word at -1/0/+1, all 256 top bytes) judged against S < L"},
    "C05": {"engine": "apimon", "configs": {"quick": [("K0", 1), ("K2", 0.25)], "thorough": [("K0", 1), ("K2", 0.1), ("K6", 0.1)]}, "floor": 4000, "rule": API_RULE_VERIFY},
    "C06": {"engine": "apimon", "configs": {"quick": [("K0", 1), ("K2", 0.25)], "thorough": [("K0", 1), ("K2", 0.15), ("K6", 0.15)]}, "floor": 500,
            "rule": "one evaluation = one VerifyBatch call judged entry-by-entry against observed single verification and the model; non-trivial = batches with n > 0; distinct = FNV-64 of (n, options, entropy, first 8 keys/signatures)"},
    "C07": {"engine": "apimon", "configs": {"quick": [("K0", 1), ("K2", 0.25)], "thorough": [("K0", 1), ("K2", 0.1)]}, "floor": 2000,
            "rule": "ordered (signing pair, verification pair) combinations incl. one-bit / length-only context changes, plus context-length and digest-length contract probes; distinct = FNV-64 of (seed, message, p, q)"},
    "C08": {"engine": "transcript", "configs": {"quick": ["K0", "K1", "K2", "K3", "K4", "K6"], "thorough": ["K0", "K1", "K2", "K3", "K4", "K5", "K6"]}, "floor": 10000,
            "rule": "API calls (key generation, 3 signing variants, verdicts in both modes on torsion/small-order/boundary/garbage triples, batches with seeded entropy, X25519 both paths, conversions) generated once by the model and executed by one binary per build configuration; evaluations = transcript lines over all configurations; distinct = distinct calls; every call is non-trivial (its full output is compared)",
            "assumptions": ["configuration K0 serves as reference; agreement with the model is established by C01-C12", "GOARCH=386 binaries executed on this amd64 kernel stand for native 32-bit targets", "only executions the workload produced are judged"]},
    "C15": {"engine": "conc", "configs": {"quick": ["K0", "K2"], "thorough": ["K0", "K1", "K2", "K4", "K5", "K6"]}, "floor": 15000,
            "rule": "evaluations = API calls executed in shuffled sequential orders and concurrently (G goroutines x GOMAXPROCS shapes, -race build) and compared with the solitary result of the same call from a fresh process; non-trivial/distinct = distinct ordered (predecessor, call) pairs in sequential mode plus distinct pairs of different calls whose executions overlapped (ticket counter) in concurrent mode",
            "assumptions": ["Go race detector (happens-before, reports only races that occur in observed executions; amd64 only, GOARCH=386 runs without it)", "solitary results come from the same build configuration, one fresh process per call", "interleavings are those the Go scheduler produced under the listed goroutine/GOMAXPROCS shapes with PRNG-driven Gosched"]},
    "C16": {"engine": "layers", "configs": {"quick": [("K0", 1), ("K1", 0.5), ("K2", 0.5), ("K6", 0.15)], "thorough": [("K0", 1), ("K1", 0.3), ("K2", 0.5), ("K3", 0.1), ("K4", 0.3), ("K5", 0.3), ("K6", 0.15), ("K1", 0.05, "asan"), ("K2", 0.05, "asan")]}, "floor": 3000,
            "rule": "evaluations = workload items (selector cases 32x17 exhaustive on every configuration, conditional-move cases, fixed-base and double-base multiplications incl. digit-targeted scalars, group-law blocks, API rounds); each instrumented call inside them is judged by the monitors (counts under monitored_events); distinct = distinct scalar-multiplication inputs and selector cases",
            "assumptions": ["the big-integer specification of each routine (package mon) and the reference model (package ref), self-validated at start-up",
                            "monitor wrappers are generated from the function signatures of the current tree (go/ast) and injected with -overlay; a routine whose wrapper cannot be generated is reported inconclusive",
                            "direct workloads stay inside the caller-reachable operand forms (R, one level of add/sub, after-basic forms); the operand envelope observed on API executions is printed next to the driven one",
                            "only executions the workload produced are judged"]},
    "C17": {"engine": "layers", "configs": {"quick": [("K0", 1), ("K2", 0.5)], "thorough": [("K0", 1), ("K2", 0.5), ("K6", 0.25)]}, "floor": 500, "timeout": {"quick": 1200, "thorough": 3600},
            "rule": "evaluations = batch-shaped heaps fed to the real multi-scalar routine (scalars derived from adversarial (r,h,S) tuples as VerifyBatch derives them, pre-filtered by a 200k-step schedule simulation) plus all-valid VerifyBatch calls watched by the fallback counter; every multiScalarmultVartime call (direct or inside VerifyBatch) is compared with the model sum; distinct = FNV-64 of the case parameters",
            "assumptions": ["the big-integer specification of each routine (package mon) and the reference model (package ref), self-validated at start-up",
                            "monitor wrappers are generated from the function signatures of the current tree (go/ast) and injected with -overlay; a routine whose wrapper cannot be generated is reported inconclusive",
                            "direct workloads stay inside the caller-reachable operand forms (R, one level of add/sub, after-basic forms); the operand envelope observed on API executions is printed next to the driven one",
                            "only executions the workload produced are judged"]},
    "C18": {"engine": "layers", "configs": {"quick": [("K0", 1), ("K2", 1)], "thorough": [("K0", 1), ("K1", 0.1), ("K2", 1), ("K4", 0.2), ("K6", 0.3)]}, "floor": 50000,
            "rule": "evaluations = compositional field rounds (level-0 boundary forms, one-level add/sub, after-basic forms, all aliasing patterns, serialisation of unreduced forms) plus API rounds; every instrumented field call is compared with its residue specification (counts under monitored_events); distinct = FNV-64 of the round's serialised operands",
            "assumptions": ["the big-integer specification of each routine (package mon) and the reference model (package ref), self-validated at start-up",
                            "monitor wrappers are generated from the function signatures of the current tree (go/ast) and injected with -overlay; a routine whose wrapper cannot be generated is reported inconclusive",
                            "direct workloads stay inside the caller-reachable operand forms (R, one level of add/sub, after-basic forms); the operand envelope observed on API executions is printed next to the driven one",
                            "only executions the workload produced are judged"]},
    "C19": {"engine": "layers", "configs": {"quick": [("K0", 1), ("K2", 1)], "thorough": [("K0", 1), ("K1", 0.1), ("K2", 1), ("K4", 0.2), ("K6", 0.3)]}, "floor": 40000,
            "rule": "evaluations = scalar rounds (k*L+rho inputs over all quotient magnitudes and the remainder boundary set, boundary pairs for add/mul, digit-targeted recoding inputs, vartime helpers per limb count) plus API rounds; every instrumented scalar call is compared with its integer specification; distinct = FNV-64 of the round's reduction inputs",
            "assumptions": ["the big-integer specification of each routine (package mon) and the reference model (package ref), self-validated at start-up",
                            "monitor wrappers are generated from the function signatures of the current tree (go/ast) and injected with -overlay; a routine whose wrapper cannot be generated is reported inconclusive",
                            "direct workloads stay inside the caller-reachable operand forms (R, one level of add/sub, after-basic forms); the operand envelope observed on API executions is printed next to the driven one",
                            "only executions the workload produced are judged"]},
    "C20": {"engine": "ct", "configs": {"quick": ["K0", "K1", "K2", "K5"], "thorough": ["K0", "K1", "K2", "K3", "K4", "K5", "K6"]}, "floor": 60, "trace_floor": 60,
            "reduced": {"quick": ["K5"]}, "count_configs": {"quick": ["K0", "K1", "K2", "K3", "K4", "K5", "K6"], "thorough": ["K0", "K1", "K2", "K3", "K4", "K5", "K6"]},
            "rule": "two monitors. (1) trace pairs: one evaluation = one pair (reference secret, other secret) of lackey traces of the same operation with identical public inputs, compared on PC sequence, memory-op shape, static addresses and per-page-pair constant offsets of dynamic addresses (classes_observed['evaluations/trace-pairs']). (2) block-count vectors: one evaluation = one execution of an operation with one secret in the build whose library sources carry `go tool cover -mode=count` counters, its vector of per-basic-block execution counts compared with the vector of the reference secret (classes_observed['evaluations/block-count-vectors']). In both, the unmeasured previous call used the reference secret. Every evaluation is non-trivial (the secret differs from the reference, or repeats it after itself); distinct = (config, op, secret pair)",
            "assumptions": ["valgrind 3.19 lackey reports every executed guest instruction and memory access of the static Go binary", "Go runtime housekeeping (allocator, scheduler, GC, other threads) is excluded from the window by symbol; library code inlined into excluded symbols does not occur",
                            "data-dependent instruction latency is not visible in a PC/address trace", "only amd64 and 386 back ends that execute here",
                            "the block-count monitor sees Go source basic blocks of the library packages only: not addresses, not assembly bodies, not branches the compiler introduces, not callees outside the module (those are the trace monitor's, on fewer secrets)",
                            "a prologue re-execution is removed from a trace only when runtime.morestack ran between the two executions of the function's entry PC"]},
    "C09": {"engine": "api+layers", "configs": {"quick": [("K0", 1), ("K2", 0.25)], "thorough": [("K0", 1), ("K2", 0.1), ("K6", 0.1)]}, "inside_configs": {"quick": [("K0", 1)], "thorough": [("K0", 1), ("K2", 0.3)]},
            "floor": 1500, "rule": API_RULE_VERIFY + "; plus every isSmallOrderVartime call of the monitored build judged against 'undecodable or [8]P = identity'"},
    "C10": {"engine": "apimon", "configs": {"quick": [("K0", 1), ("K2", 0.25)], "thorough": [("K0", 1), ("K2", 0.25), ("K6", 0.1)]}, "floor": 15000,
            "rule": "32-byte strings (special y values, all y >= p, mixed-order points in every encoding, garbage, random) decoded by the library and the model; every string is non-trivial (about half decode); distinct = FNV-64 of the string"},
    "C11": {"engine": "apimon", "configs": {"quick": [("K0", 1), ("K2", 0.25)], "thorough": [("K0", 1), ("K2", 0.3), ("K3", 0.3), ("K6", 0.1)]}, "floor": 3000,
            "rule": "(scalar, point, path) cases: digit-pattern scalars, all single-bit scalars, low-order / non-canonical u, all lengths; judged by the RFC 7748 ladder model; non-trivial = both arguments 32 bytes; distinct = FNV-64 of (scalar, point, path)"},
    "C12": {"engine": "apimon", "configs": {"quick": [("K0", 1), ("K2", 0.25)], "thorough": [("K0", 1), ("K2", 0.2), ("K6", 0.1)]}, "floor": 4000,
            "rule": "seeds (commutation) and 32-byte public-key strings (conversion vs (1+y)/(1-y) and decodability); distinct = FNV-64 of the input"},
    "C13": {"engine": "apimon", "configs": {"quick": [("K0", 1), ("K2", 0.25), ("K1", 0.06, "race")],
                                            "thorough": [("K0", 1), ("K1", 0.1), ("K2", 0.1), ("K0", 0.03, "race"), ("K1", 0.03, "race"), ("K2", 0.03, "race"), ("K1", 0.02, "asan"), ("K2", 0.02, "asan")]}, "floor": 20000,
            "rule": "API calls with hostile argument shapes (lengths 0..70, nil/empty, aliasing, canary-guarded capacity); distinct = FNV-64 of (op, alias, options, first arguments)"},
    "C14": {"engine": "apimon", "configs": {"quick": [("K0", 1), ("K2", 0.25)], "thorough": [("K0", 1), ("K2", 0.1)]}, "floor": 1500,
            "rule": "GenerateKey under instrumented readers (exact/long/1-byte/chunked/short at k/error at k) and key-object coherence probes; distinct = FNV-64 of (stream prefix, reader kind, k) or seed"},
}

for _k, _s in SPECS.items():
    _s.setdefault("level", "exploration")
    _s.setdefault("assumptions", [
        "the big-integer reference model (harness/ref, math/big) is correct: validated at start-up against RFC 8032 7.1-7.3, RFC 7748 5.2/6.1 and the 12 speccheck cases in both modes",
        "Go toolchain, math/big, crypto/sha512 and crypto/ed25519 of the installed toolchain",
        "only executions the workload produced are judged",
    ])


def main(argv):
    if not argv:
        print(__doc__)
        return 2
    if argv[0] == "--setup":
        import setup
        return setup.main()
    if argv[0] == "--replay":
        return replay(argv[1])
    prop = argv[0]
    tier = argv[1] if len(argv) > 1 else os.environ.get("VERIF_TIER", "quick")
    seed = int(os.environ.get("VERIF_SEED", "1") or "1")
    spec = SPECS.get(prop)
    if spec is None:
        log("unknown property %s" % prop)
        return 2
    only = os.environ.get("VERIF_ONLY_CONFIGS")
    if only:
        # sensitivity campaigns (tools/mutate.py) restrict a check to some build configurations
        keep = set(only.split(","))
        spec = dict(spec)
        for key in ("configs", "inside_configs", "count_configs"):
            if key in spec:
                spec[key] = {t: [c for c in v if (c[0] if isinstance(c, tuple) else c).split("+")[0] in keep] for t, v in spec[key].items()}
        spec["floor"] = 1
    try:
        return ENGINES[spec["engine"]](prop, tier, seed, spec)
    except BuildError as e:
        log(str(e))
        log("INCONCLUSIVE build failed")
        return 2


def replay(path):
    v = json.load(open(path))
    prop, cfg = v.get("property"), v.get("config", "K0")
    spec = SPECS.get(prop, {})
    eng = spec.get("engine", "apimon")
    rep = REPLAYERS.get(eng)
    if rep is None:
        log("no replayer for engine %s" % eng)
        return 2
    return rep(path, v, cfg, spec)


def replay_apimon(path, v, cfg, spec):
    cfg = cfg.split("+")[0]
    if cfg not in CONFIGS:
        cfg = "K0"
    binp = build(cfg, "apimon")
    p = subprocess.run([binp, "-config", cfg, "-replay", path])
    return p.returncode


REPLAYERS = {"apimon": replay_apimon, "transcript": replay_transcript, "conc": replay_conc, "ct": replay_ct, "layers": replay_layers, "api+layers": replay_layers}
